"""Generate /verif/MANIFEST.json from one table (keeps it valid at all times)."""
import json
import os

VERIF = os.path.dirname(os.path.dirname(os.path.abspath(__file__)))

# id -> (technique, level text, level note, design ref)
P = {
    "C01": ("TLC trace validation of match_to call/return events against AdapterMatch!Sound; exhaustive TLC check of the transcribed aligner",
            "Every recorded match of the real match_to() (complete small scope + seeded random + planted occurrences, all eight adapter types and wildcard regimes) is validated by TLC against the declarative definition of a genuine in-tolerance occurrence (placement table, minimum overlap, exact edit/Hamming distance under the wildcard regime, rational error bound).",
            "TLC; the float/rational vetting of error rates (R3); the small-scope hypothesis for the exhaustive part.", "5/C01"),
    "C02": ("TLC trace validation of match_to None/match events against AdapterMatch!MustFind and the cut-position clauses",
            "For every recorded match_to() call TLC decides from the declarative model whether an occurrence had to be found (error-free; any admissible without indels; any admissible for the start-anchored types with indels) and whether the cut position respects the leftmost/rightmost exact copy.",
            "TLC; rational arithmetic for rates; reads are drawn from ACGTN acgtn and two non-IUPAC characters.", "5/C02"),
    "C03": ("TLC trace validation of whole command-line runs against the Pipeline reference model (slice/interval clauses)",
            "Run events of the real command line over a TLC/seed generated configuration space are stepped through the Pipeline specification; every output record must be the slice (or mask/lowercase image) the model derives from the sampled Locate oracle.",
            "Locate(adapter, sequence) is sampled from the real match_to (rule R2) and constrained separately by C01/C02/C07/C08.", "5/C03"),
    "C04": ("TLC model checking of Pipeline conservation invariants + trace validation of reports against files",
            "TLC checks Conservation/OneDestination on the pipeline model for all option subsets; every real run's JSON/text/minimal report is validated against the records actually present in all output files and against the sums over the recorded intermediate reads (after every modifier) of the same run.",
            "Report parsing by the harness; dnaio record writing trusted.", "5/C04"),
    "C05": ("TLC trace validation of paired runs against the Pipeline paired-filter model",
            "Paired/interleaved run events are validated record by record: same count/order, record k from the same pair, pair decisions by any/both/first with the forced 'both' and one-sided bounds, --pair-adapters both-or-neither.",
            "Same as C03.", "5/C05"),
    "C06": ("TLC model checking of the Runner protocol (all interleavings) + replay of TLC behaviours into the real runner under a deterministic virtual scheduler + validation of real multi-process traces",
            "The reader/worker/main protocol is a TLA+ state machine checked exhaustively for small N, C; TLC-generated schedules are executed by the real runners.py under an in-process virtual multiprocessing layer with state projection compared after each step, and outputs/statistics compared with the one-core run.",
            "The virtual multiprocessing layer (fork copy == deep copy); TLC; small-scope hypothesis on N workers, C chunks.", "5/C06"),
    "C07": ("TLC model check of the k-mer search-set construction against the transcribed matcher + differential trace validation of match_to with/without prefilter",
            "Each recorded match_to event carries the result with the adapter's k-mer finder and with the always-true finder; TLC rejects any difference. The design theorem (match found => some k-mer present) is model-checked on the transcribed search-set construction.",
            "TLC; the out-of-bounds read on short reads is a memory-safety matter outside this property (DESIGN 6).", "5/C07"),
    "C08": ("TLC model checking of the index-construction state machine over all adapter orders + trace validation of indexed vs one-by-one lookups",
            "AdapterIndex is a TLA+ state machine of _make_index explored for every permutation of small adapter sets (order independence, best-of, ambiguity); recorded indexed lookups of the real code are validated against Sound/UniqueOccurrenceFound/AgreesWithOneByOne.",
            "TLC; small-scope hypothesis on adapter sets.", "5/C08"),
    "C09": ("TLC trace validation of runs against AdapterCutting (best-of, rounds, linked) over the sampled Locate oracle",
            "Best-adapter choice, one adapter per round, --times rounds on the trimmed read, non-trim actions over the union, linked-adapter rules are TLA+ operators evaluated by TLC on every recorded read of real runs.",
            "Rule R2 (Locate sampled from match_to).", "5/C09"),
    "C10": ("TLC-enumerated option subsets/permutations; trace validation of output records against the Pipeline stage-order model",
            "Every run's output records must equal the composition of the stages in the documented order as computed by the Pipeline specification; permutations of the command line must give identical output.",
            "Rule R2; names restricted to the documented placeholders.", "5/C10"),
    "C11": ("TLC trace validation of filter decisions (first applicable filter wins) against the Pipeline filter model",
            "Thresholds are placed on and next to every boundary of the reads used; the destination of each read (main output, redirect file, discarded) is validated by TLC against the ordered filter model.",
            "Expected-error comparisons use exactly representable thresholds.", "5/C11"),
    "C12": ("TLC model checking of the Runner protocol with fault constants incl. liveness under fairness + TLC fault behaviours replayed step by step into the real runner + fault enumeration executed in the real code (virtual scheduler and real processes) and validated as traces",
            "Every truncation point / single-record corruption of small inputs is executed with 1..3 cores (adversarial virtual schedules, plus real processes); exit status, message, termination and partial output are validated by TLC against the fault model (Trace_Fault), the hook-event logs against Runner (Trace_Runner / Trace_RunnerMP). Behaviours that TLC simulates for Runner with a fault chosen in the initial state (bad chunk i, reader failure at chunk k, start failure) are executed action by action by the real runner on an input constructed to carry exactly that fault.",
            "Well-formedness decided on line structure; a 30 s bound stands for 'never hangs' in real-process runs.", "5/C12"),
    "C13": ("TLC exhaustive check scan-form == declarative BWA definition; TLC trace validation of quality_trim_index / nextseq_trim_index calls and -q/--nextseq-trim runs",
            "The statement's scan and its declarative reading are both TLA+ definitions proven equal by TLC on all small quality strings; every recorded call of the real functions and every command-line run (reads and reported trimmed bases) is validated against them.",
            "TLC; small-scope hypothesis for the equivalence of the two forms.", "5/C13"),
    "C14": ("TLC exhaustive check scan == declarative for poly-A/T and N-trimming; trace validation of poly_a_trim_index, NEndTrimmer, TooManyN, expected_errors",
            "Definitions from the statement as TLA+ operators; expected errors in 10^-12 fixed point from an independently generated table; every recorded call and --poly-a/--trim-n run validated by TLC.",
            "Expected errors are checked to 1e-12 * (n + 20) absolute, not to the last ulp.", "5/C14"),
    "C15": ("TLC trace validation of demultiplexed runs against the Pipeline sink model",
            "File of last match name / unknown / untrimmed / nowhere, combinatorial key (per read, against the model); at the level of the run: a file exists for every adapter name (name combination) even if it stays empty, and the sorted records over all demultiplexed files equal those of a second execution of the same command without demultiplexing (twin run).",
            "Rule R2.", "5/C15"),
    "C16": ("TLC trace validation of --revcomp runs against AdapterCutting!RevComp",
            "Strict-improvement rule, tie keeps the given orientation, trimmed reverse complement with reversed qualities, name marking, counters.",
            "Rule R2 (scores come from real matches).", "5/C16"),
    "C17": ("TLC trace validation of --info-file rows against Pipeline!InfoRows",
            "Row per read, -1 rows, rows in match order, linked ;1/;2, fields concatenate to the read as it entered adapter trimming, middle = coordinates = aligned stretch, qualities split alike.",
            "Rule R2.", "5/C17"),
    "C18": ("TLC enumeration of AdapterSpecGrammar derivations; trace validation of the built adapters against Meaning(d)",
            "Derivations of the documented notation are enumerated by TLC, rendered, parsed by the real parser, and the built adapter's class/attributes validated against the specification's meaning function.",
            "Only documented invalid combinations are required to fail.", "5/C18"),
    "C19": ("TLC enumeration of FileLayout configurations; trace validation of output formats and record digests",
            "Every configuration of input container x output container x layout x output name x cores from the FileLayout model is executed; records must be identical across the class and the output format must follow name > flag > input.",
            "The codecs themselves are trusted.", "5/C19"),
    "C20": ("TLC trace validation of per-adapter statistics against tallies of applied matches; rational check of allowed-error ranges",
            "The JSON adapters_read1/2 entries are validated against the model's tally over the matches the Pipeline model applies; error ranges against floor(L * rate) in rational arithmetic.",
            "Rule R2/R3.", "5/C20"),
}

BUILT_FILE = os.path.join(VERIF, "harness", "built.json")


def main():
    built = json.load(open(BUILT_FILE))
    checks, na = [], []
    for pid, (tech, text, note, ref) in P.items():
        if pid in built["claimed"]:
            checks.append(dict(
                property_id=pid,
                quick_cmd=f"./check {pid} --tier quick",
                thorough_cmd=f"./check {pid} --tier thorough",
                evidence_file=f"/verif/evidence/{pid}.json",
                replay_cmd_template=f"./check {pid} --replay {{path}}",
                engine=built["engine"].get(pid, "tlc-trace"),
                level_claimed=dict(category="model_checking", text=text, design_ref="DESIGN.md section " + ref),
                level_note=note,
                technique=tech,
            ))
        else:
            na.append(dict(property_id=pid, reason=built["not_claimed"].get(pid, "check not built yet (work in progress in this session)")))
    m = dict(
        version=1,
        setup_cmd="./check --setup",
        hooks=dict(
            guard="CUTADAPT_VERIF_TRACE",
            enable="checks copy /repo/src/cutadapt (current working tree) into /verif/.build/pkg-<hash>, compile the .pyx files there with cythonize and set CUTADAPT_VERIF_TRACE=<dir> when protocol events are wanted",
            baseline_off_cmd="cd /repo && env -u CUTADAPT_VERIF_TRACE /venv/bin/python -m pytest -ra -q -p no:cacheprovider --timeout=900 --continue-on-collection-errors",
            source_commits=built.get("hook_commits", []),
            add_only=True,
        ),
        engines=[
            dict(name="tlc-model", path="spec/MC_*.tla", serves_properties=sorted(built["claimed"]),
                 kind_free_text="TLC exhaustive / simulation model checking of the TLA+ specification modules"),
            dict(name="tlc-trace", path="spec/Trace_*.tla", serves_properties=sorted(built["claimed"]),
                 kind_free_text="TLC trace validation: recorded observations of the real code checked against the specification's clauses"),
            dict(name="vmp-replay", path="harness/vmp.py", serves_properties=[p for p in ("C06", "C12", "C15", "C19") if p in built["claimed"]],
                 kind_free_text="deterministic virtual multiprocessing layer replaying TLC behaviours of Runner.tla into runners.py"),
        ],
        checks=checks,
        not_applicable=na,
        notes="Model-based verification with an explicit TLA+ specification (spec/), see DESIGN.md (section 11: as built). Exit 2 of a check means machinery failure, never a verdict. "
              "--replay re-executes the stored case on the current tree. VERIF_SEED selects the seed (default 1). "
              "Known findings: known_findings.json. Beyond the listed properties (conformance only, never a VIOLATION): "
              "./check X_CLI (CliRules.tla against the real command-line parser, evidence in conformance/), Trace_Run clauses Aux.* "
              "(--rest-file / --wildcard-file). ./check --selftest demonstrates the binding (corrupted observations are rejected). "
              "Development tools (not checks): harness/all_mutants.py (seeded/ changes must be detected), harness/all_benign.sh "
              "(benign/ changes must not raise an alarm).",
    )
    with open(os.path.join(VERIF, "MANIFEST.json"), "w") as f:
        json.dump(m, f, indent=1)
    print("claimed:", sorted(built["claimed"]))


if __name__ == "__main__":
    main()
