#!/venv/bin/python
"""usage: all_mutants.py [-j N] [PID ...]   -- development tool, not a MANIFEST check

Runs every stored seeded change (seeded/<dir>) against the quick check of the property it is stored under
(harness/mutant_run.sh: scratch copy of /repo/src, never /repo) and prints one line per change:
DETECTED / MISSED / NEUTRALISED (the patch no longer applies because a fix: commit removed the code it changed).
Writes seeded/REGRESSION.json.
"""
import concurrent.futures as cf
import glob
import json
import os
import re
import subprocess
import sys
import time

ROOT = "/verif"


def patch_of(d):
    reb = sorted(glob.glob(os.path.join(d, "patch_rebased*.diff")))
    return reb[-1] if reb else os.path.join(d, "patch.diff")


def applies(patch):
    r = subprocess.run(["git", "-C", "/repo", "apply", "--check", patch], capture_output=True, text=True)
    return r.returncode == 0


def one(d):
    meta = json.load(open(os.path.join(d, "meta.json")))
    pid = meta["property"]
    m0 = re.match(r"(C\d\d)\b", (meta.get("detected_by") or [""])[0])
    if m0:
        pid = m0.group(1)          # stored under the property it was written for, detected by another property's check
    patch = patch_of(d)
    t = time.time()
    env = dict(os.environ, TAIL="400")
    r = subprocess.run([os.path.join(ROOT, "harness/mutant_run.sh"), patch, pid], capture_output=True, text=True, env=env)
    out = r.stdout + r.stderr
    m = re.search(r"exit=(\d+)", out)
    rc = int(m.group(1)) if m else -1
    viol = re.findall(r"clause=(\S+)", out)
    if "PATCH-FAILED" in out or "PATCH-EMPTY" in out:
        return dict(dir=os.path.basename(d), property=pid, verdict="NEUTRALISED", wall=0, note="patch does not apply to the current tree")
    verdict = "DETECTED" if rc == 1 and "VIOLATION property=" + pid in out else ("MISSED" if rc == 0 else f"MACHINERY({rc})")
    r = dict(dir=os.path.basename(d), property=pid, verdict=verdict, wall=round(time.time() - t, 1), clauses=sorted(set(viol))[:6])
    if verdict.startswith("MACHINERY"):
        r["tail"] = out[-1500:]
        print(out[-1500:], flush=True)
    return r


def main():
    args = sys.argv[1:]
    jobs = 3
    if args[:1] == ["-j"]:
        jobs = int(args[1])
        args = args[2:]
    dirs = sorted(d for d in glob.glob(os.path.join(ROOT, "seeded", "*")) if os.path.isdir(d))
    if args:
        dirs = [d for d in dirs if os.path.basename(d).split("_")[0] in args]
    res = []
    with cf.ThreadPoolExecutor(jobs) as ex:
        for r in ex.map(one, dirs):
            print(f"{r['verdict']:12s} {r['dir']:18s} {r['wall']:6.1f}s {' '.join(r.get('clauses', []))[:120]}", flush=True)
            res.append(r)
    if not args:
        json.dump(res, open(os.path.join(ROOT, "seeded", "REGRESSION.json"), "w"), indent=1)
    bad = [r for r in res if r["verdict"] not in ("DETECTED", "NEUTRALISED")]
    print(f"{len(res)} changes, {sum(r['verdict'] == 'DETECTED' for r in res)} detected, "
          f"{sum(r['verdict'] == 'NEUTRALISED' for r in res)} neutralised, {len(bad)} not detected")
    sys.exit(1 if bad else 0)


if __name__ == "__main__":
    main()
