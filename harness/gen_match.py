"""
match_to call/return events for C01 / C02 / C07 (and as building block for others).

Each event: the adapter configuration (independent of the code's own derived attributes),
the read, the result with the adapter's k-mer finder and with the always-true finder.
"""
import itertools
from fractions import Fraction

IUPAC = {
    "A": "A", "C": "C", "G": "G", "T": "T", "R": "AG", "Y": "CT", "S": "GC", "W": "AT", "K": "GT", "M": "AC",
    "B": "CGT", "D": "AGT", "H": "ACT", "V": "ACG", "N": "ACGT",
}

# documented adapter types -> (class name, constructor kwargs, placement rule of the specification)
TYPES = {
    "Back": ("BackAdapter", {}, "Back"),
    "Front": ("FrontAdapter", {}, "Front"),
    "Prefix": ("PrefixAdapter", {}, "Prefix"),
    "Suffix": ("SuffixAdapter", {}, "Suffix"),
    "FrontNI": ("NonInternalFrontAdapter", {}, "FrontNI"),
    "BackNI": ("NonInternalBackAdapter", {}, "BackNI"),
    "Anywhere": ("AnywhereAdapter", {}, "Anywhere"),
    "RightmostFront": ("RightmostFrontAdapter", {}, "RightmostFront"),
    "Back;anywhere": ("BackAdapter", {"force_anywhere": True}, "Anywhere"),
    "Front;anywhere": ("FrontAdapter", {"force_anywhere": True}, "Anywhere"),
    "RightmostFront;anywhere": ("RightmostFrontAdapter", {"force_anywhere": True}, "Anywhere"),
}

RATES = [Fraction(0), Fraction(1, 10), Fraction(2, 10), Fraction(25, 100), Fraction(34, 100), Fraction(1, 2),
         Fraction(7, 10), Fraction(12, 100), Fraction(15, 100), Fraction(3, 10), Fraction(9, 10)]


def codes(s):
    return [ord(c) for c in s]


def vetted(rate, m):
    """R3: double arithmetic and exact rational arithmetic agree for every length <= m."""
    f = float(rate)
    for L in range(m + 1):
        for c in range(m + 2):
            if (c <= L * f) != (c * rate.denominator <= L * rate.numerator):
                return False
        if int(f * L) != (rate.numerator * L) // rate.denominator:
            return False
    return True


class Config:
    __slots__ = ("typ", "seq", "rate", "ovl", "aw_req", "rw", "indels", "abs_errors")

    def __init__(self, typ, seq, rate, ovl, aw_req=True, rw=False, indels=True, abs_errors=None):
        self.typ, self.seq, self.rate, self.ovl = typ, seq, rate, ovl
        self.aw_req, self.rw, self.indels, self.abs_errors = aw_req, rw, indels, abs_errors

    def key(self):
        return (self.typ, self.seq, self.rate, self.ovl, self.aw_req, self.rw, self.indels, self.abs_errors)

    def build(self):
        import cutadapt.adapters as A
        cls, kw, _ = TYPES[self.typ]
        max_errors = float(self.abs_errors) if self.abs_errors is not None else float(self.rate)
        return getattr(A, cls)(self.seq, max_errors=max_errors, min_overlap=self.ovl, read_wildcards=self.rw,
                               adapter_wildcards=self.aw_req, indels=self.indels, name="x", **kw)

    def fields(self):
        aw = self.aw_req and any(c not in "ACGT" for c in self.seq)
        return dict(rule=TYPES[self.typ][2], typ=self.typ, a=codes(self.seq), num=self.rate.numerator,
                    den=self.rate.denominator, ovl=self.ovl, aw=aw, rw=self.rw, indels=self.indels)


def make_config(typ, seq, rate, ovl, aw_req=True, rw=False, indels=True, abs_errors=None):
    """Returns Config or None if excluded by vetting / invalid."""
    seq = seq.upper()
    if aw_req and seq.count("N") == len(seq):
        return None                      # rejected by the aligner ("only N wildcards")
    if abs_errors is not None:
        non_n = len(seq) - seq.count("N")
        if non_n == 0:
            return None
        rate = Fraction(abs_errors, non_n)
        if rate >= 1:
            return None
    if not vetted(rate, len(seq)):
        return None
    return Config(typ, seq, rate, ovl, aw_req, rw, indels, abs_errors)


_adapter_cache = {}


class NoPrefilter:
    """Stands in for adapter.kmer_finder: every read may contain the adapter (the harness' own stub: no private
    class of the code under test is needed)."""
    calls = 0

    def kmers_present(self, sequence):
        NoPrefilter.calls += 1
        return True


def bypass_effective():
    """Is adapter.kmer_finder what match_to consults?  (If a tree organises the prefilter differently the
    'without prefilter' observation equals the ordinary one and the differential clause of C07 says nothing.)"""
    import cutadapt.adapters as A
    before = NoPrefilter.calls
    for cls, kw in ((A.BackAdapter, {}), (A.FrontAdapter, {}), (A.AnywhereAdapter, {})):
        a = cls("ACGTACGTACGGT", max_errors=0.1, min_overlap=3, **kw)
        a.kmer_finder = NoPrefilter()
        a.match_to("TTTTTTTTTTTTTTTTTTTTTT")
    return NoPrefilter.calls > before


def observe(cfg, read, want, extra=None):
    """Run the real match_to with and without prefilter; return the event dict (without id)."""
    k = cfg.key()
    ad = _adapter_cache.get(k)
    if ad is None:
        if len(_adapter_cache) > 3000:
            _adapter_cache.clear()
        a1 = cfg.build()
        a2 = cfg.build()
        a2.kmer_finder = NoPrefilter()
        # the same adapter after a pickle round trip: what a worker process works with when processes are
        # started with spawn / forkserver (a reported match there is a reported match too)
        try:
            import pickle
            p1 = pickle.loads(pickle.dumps(a1))
            p2 = pickle.loads(pickle.dumps(a1))
            p2.kmer_finder = NoPrefilter()
        except Exception:  # noqa  (a tree whose adapters cannot be pickled: the variant is not available)
            p1 = p2 = None
        ad = _adapter_cache[k] = (a1, a2, p1, p2)
    e = cfg.fields()
    e["r"] = codes(read)
    e["want"] = list(want)
    import zlib
    use_pickled = ad[2] is not None and (zlib.crc32(repr((cfg.key(), read)).encode()) % 7 == 0)     # (deterministic)
    e["pickled"] = use_pickled
    for tag, adapter in (("", ad[2] if use_pickled else ad[0]), ("_nf", ad[3] if use_pickled else ad[1])):
        try:
            m = adapter.match_to(read)
            crash = None
        except Exception as ex:  # noqa
            m, crash = None, repr(ex)
        e["found" + tag] = m is not None
        e["res" + tag] = [m.astart, m.astop, m.rstart, m.rstop, m.score, m.errors] if m is not None else [0] * 6
        if crash:
            e["crash" + tag] = crash
        if m is not None:
            e["cls" + tag] = type(m).__name__
    try:
        e["kmers_present"] = bool(ad[0].kmer_finder.kmers_present(
            read[::-1] if cfg.typ.startswith("RightmostFront") else read))
    except Exception:  # noqa  (informational field only)
        e["kmers_present"] = True
    if extra:
        e.update(extra)
    return e


def concretize(rng, seq):
    return "".join(rng.choice(IUPAC.get(c, "A")) for c in seq)


def mutate(rng, s, edits, indels=True, alphabet="ACGT"):
    s = list(s)
    for _ in range(edits):
        op = rng.choice("sid") if indels else "s"
        if op == "s" and s:
            i = rng.randrange(len(s))
            s[i] = rng.choice([c for c in alphabet if c != s[i]] or alphabet)
        elif op == "i":
            s.insert(rng.randint(0, len(s)), rng.choice(alphabet))
        elif op == "d" and s:
            del s[rng.randrange(len(s))]
    return "".join(s)


def random_read(rng, n, alphabet="ACGT"):
    return "".join(rng.choice(alphabet) for _ in range(n))


def planted_read(rng, cfg, maxlen=40):
    """A read with one or two (possibly partial, possibly erroneous) occurrences of the adapter."""
    m = len(cfg.seq)
    k = int(cfg.rate * m)
    alphabet = "ACGT" if rng.random() < 0.8 else "ACGTNacgtn"
    occ = concretize(rng, cfg.seq)
    if cfg.rw and rng.random() < 0.5:
        occ = "".join(rng.choice((c, c, "N", "R", "Y")) for c in occ)
    edits = rng.choice((0, 0, 1, k, k, k + 1, max(0, k - 1)))
    occ = mutate(rng, occ, edits, indels=rng.random() < 0.7)
    if rng.random() < 0.2:
        occ = occ.lower()
    mode = rng.random()
    left = random_read(rng, rng.randint(0, 10), alphabet)
    right = random_read(rng, rng.randint(0, 10), alphabet)
    if mode < 0.25:            # full occurrence in the middle
        read = left + occ + right
    elif mode < 0.45:          # partial at 3' end (prefix of adapter)
        read = left + occ[: rng.randint(1, max(1, len(occ)))]
    elif mode < 0.65:          # partial at 5' end (suffix of adapter)
        read = occ[rng.randint(0, max(0, len(occ) - 1)):] + right
    elif mode < 0.75:          # exactly at an end / the whole read
        read = rng.choice((occ, occ + right, left + occ))
    elif mode < 0.85:          # read inside adapter
        i = rng.randint(0, max(0, len(occ) - 1))
        read = occ[i: rng.randint(i, len(occ))]
    else:                      # two occurrences (dimers, leftmost/rightmost rules)
        occ2 = mutate(rng, concretize(rng, cfg.seq), rng.choice((0, 0, 1, k)))
        read = left + occ + random_read(rng, rng.randint(0, 6), alphabet) + occ2 + right
    # band-limit cases for anchored types: shift by k, k+1
    if cfg.typ in ("Prefix", "Suffix") and rng.random() < 0.3:
        pad = random_read(rng, rng.choice((k, k + 1, 1)), alphabet)
        read = (pad + occ + right) if cfg.typ == "Prefix" else (left + occ + pad)
    return read[:maxlen]


def random_config(rng, small=False, types=None, maxlen=12):
    while True:
        typ = rng.choice(types or list(TYPES))
        if small:
            m = rng.randint(1, 4)
            seq = "".join(rng.choice("ACNR") for _ in range(m))
        else:
            m = rng.choice((1, 2, 3, 4, 5, 6, 7, 8, 9, 10, 11, 12)[:maxlen])
            ab = rng.choice(("ACGT", "ACGT", "ACGT", "ACGTN", "ACGTNRYSWKMBDHV", "AC"))
            seq = "".join(rng.choice(ab) for _ in range(m))
        rate = rng.choice(RATES)
        abs_errors = None
        if rng.random() < 0.12:
            abs_errors = rng.choice((1, 2, 3))
        ovl = rng.choice((1, 2, 3, 3, 4, 5, m, m + 2))
        cfg = make_config(typ, seq, rate, ovl, aw_req=rng.random() < 0.85, rw=rng.random() < 0.2,
                          indels=rng.random() < 0.7, abs_errors=abs_errors)
        if cfg is not None:
            try:
                cfg.build()
            except Exception:
                continue
            return cfg


def small_scope(rng, n_events, want):
    """A seeded slice of the complete small scope: adapters 1..4 over {A,C,N,R}, reads 0..6 over {A,C,N,a,-}."""
    ev = []
    adapters = ["".join(t) for m in range(1, 5) for t in itertools.product("ACNR", repeat=m)]
    reads = ["".join(t) for n in range(0, 7) for t in itertools.product("ACNa-", repeat=n)]
    rates = [Fraction(0), Fraction(2, 10), Fraction(34, 100), Fraction(1, 2)]
    while len(ev) < n_events:
        cfg = make_config(rng.choice(list(TYPES)), rng.choice(adapters), rng.choice(rates), rng.choice((1, 2, 3)),
                          aw_req=rng.random() < 0.8, rw=rng.random() < 0.25, indels=rng.random() < 0.6)
        if cfg is None:
            continue
        for _ in range(8):
            ev.append(observe(cfg, rng.choice(reads), want))
    return ev


def random_events(rng, n_events, want, types=None, maxread=40):
    ev = []
    while len(ev) < n_events:
        cfg = random_config(rng, types=types)
        for _ in range(6):
            mode = rng.random()
            if mode < 0.75:
                read = planted_read(rng, cfg, maxread)
            elif mode < 0.9:
                read = random_read(rng, rng.randint(0, maxread), rng.choice(("ACGT", "ACGTNacgtn-.")))
            else:
                read = random_read(rng, rng.randint(0, len(cfg.seq)), "ACGT")   # reads shorter than the adapter
            ev.append(observe(cfg, read, want))
    return ev


def targeted_events(rng, n_events, want):
    """Reads built from KmerFilter's window arithmetic: k insertions push the first k-mer out of the
    overlap window; reads shorter than the window; reads lying inside the adapter."""
    ev = []
    while len(ev) < n_events:
        typ = rng.choice(list(TYPES))
        m = rng.choice((3, 4, 5, 6, 8, 10, 12, 14, 17, 20))
        seq = "".join(rng.choice("ACGT") for _ in range(m))
        rate = rng.choice([r for r in RATES if r < 1])
        nrich = rng.random() < 0.15
        if nrich:
            # an adapter with a block of N placed off-centre, searched with both ends free: the allowed errors of an
            # alignment that lies inside the adapter depend on the non-N bases actually aligned
            typ = rng.choice(("Anywhere", "Back;anywhere", "Front;anywhere", "Anywhere", "Back", "Front"))
            m = rng.choice((14, 17, 20, 24, 30))
            nb = rng.randint(3, m // 2)
            st = rng.randint(1, m - nb - 1)
            seq = "".join(rng.choice("ACGT") for _ in range(m))
            seq = seq[:st] + "N" * nb + seq[st + nb:]
            rate = rng.choice((Fraction(1, 10), Fraction(2, 10), Fraction(12, 100), Fraction(15, 100), Fraction(25, 100)))
        cfg = make_config(typ, seq, rate, rng.choice((1, 2, 3, 5)), indels=rng.random() < 0.8)
        if cfg is None:
            continue
        k = int(rate * m)
        for _ in range(6):
            mode = rng.random()
            if nrich and rng.random() < 0.7:
                mode = 0.6
            if mode < 0.3:
                # the whole read is (nearly) an adapter end: shorter than every overlap window
                L = rng.randint(1, m)
                piece = rng.choice((seq[:L], seq[m - L:]))
                if rng.random() < 0.4:
                    piece = mutate(rng, piece, 1, indels=cfg.indels)
                read = rng.choice(("", "", random_read(rng, rng.randint(1, 2)))) + piece + \
                    rng.choice(("", "", random_read(rng, rng.randint(1, 2))))
            elif mode < 0.55:
                # occurrence with up to k edits, biased to insertions near one end
                occ = list(seq)
                for _i in range(rng.randint(1, max(1, k))):
                    pos = rng.choice((0, 1, len(occ) - 1, len(occ), rng.randint(0, len(occ))))
                    occ.insert(min(pos, len(occ)), rng.choice("ACGT"))
                occ = "".join(occ)
                pad = random_read(rng, rng.randint(0, 6))
                if typ in ("Suffix", "BackNI", "Back", "Back;anywhere"):
                    read = pad + occ[: rng.randint(max(1, len(occ) - 3), len(occ))] if typ != "Suffix" else pad + occ
                elif typ in ("Prefix",):
                    read = occ + pad
                else:
                    read = occ[rng.randint(0, min(3, len(occ) - 1)):] + pad if typ in ("FrontNI", "Front", "Front;anywhere") else pad + occ + random_read(rng, rng.randint(0, 4))
            elif mode < 0.8:
                i = rng.randint(0, m - 1)
                read = seq[i: rng.randint(i, m)]
                if "N" in read:
                    read = concretize(rng, read)
                if rng.random() < (0.8 if nrich else 0.4):
                    read = mutate(rng, read, rng.randint(1, 2) if nrich else 1)
            else:
                read = planted_read(rng, cfg, 30)
            ev.append(observe(cfg, read, want))
    return ev




def signature(e, clause):
    """Coarse class of a rejected observation (for known-findings matching)."""
    nf_ok = clause.endswith("@nofilter")
    return f"{clause}:{e['typ']}:{'indels' if e['indels'] else 'noindels'}"
