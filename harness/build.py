"""
Build the code under test from /repo's *current working tree* into a private
cache directory and return a directory to put on sys.path.

* every Cython module is cached separately, keyed by the hash of its .pyx,
  all headers and _match_tables.py (imported at C level by two modules);
* the package directory is keyed by the hash of *all* sources, so any edit to
  a .py/.pyx/.h file under /repo/src/cutadapt yields a fresh package dir;
* nothing is ever written to /repo.

`setuptools_scm` is absent offline, so `setup.py build_ext` is unusable;
`/venv/bin/cythonize -i` works.
"""
import fcntl
import hashlib
import os
import shutil
import subprocess
import sys
import time
from concurrent.futures import ThreadPoolExecutor

VERIF = os.path.dirname(os.path.dirname(os.path.abspath(__file__)))
REPO = os.environ.get("VERIF_REPO", "/repo")
SRC = os.path.join(REPO, "src", "cutadapt")
BUILD = os.path.join(VERIF, ".build")
CYTHONIZE = "/venv/bin/cythonize"


def _h(paths):
    h = hashlib.sha256()
    for p in sorted(paths):
        h.update(os.path.basename(p).encode())
        with open(p, "rb") as f:
            h.update(f.read())
    return h.hexdigest()[:16]


def _compile(mod, pyx, deps, out_so):
    tmp = os.path.join(BUILD, f"tmp-{os.getpid()}-{mod}")
    shutil.rmtree(tmp, ignore_errors=True)
    pk = os.path.join(tmp, "cutadapt")
    os.makedirs(pk)
    for p in [pyx] + deps:
        shutil.copy(p, pk)
    open(os.path.join(pk, "__init__.py"), "w").close()
    r = subprocess.run(
        [CYTHONIZE, "-i", "-q", os.path.join("cutadapt", mod + ".pyx")],
        cwd=tmp, stdout=subprocess.PIPE, stderr=subprocess.STDOUT, text=True,
    )
    sos = [f for f in os.listdir(pk) if f.startswith(mod + ".") and f.endswith(".so")]
    if r.returncode != 0 or not sos:
        sys.stderr.write(r.stdout[-4000:])
        shutil.rmtree(tmp, ignore_errors=True)
        raise RuntimeError(f"cythonize failed for {mod}")
    os.replace(os.path.join(pk, sos[0]), out_so)
    shutil.rmtree(tmp, ignore_errors=True)
    return sos[0]


def build(verbose=False):
    """Return the directory containing the freshly assembled `cutadapt` package."""
    os.makedirs(BUILD, exist_ok=True)
    t0 = time.time()
    files = [os.path.join(SRC, f) for f in os.listdir(SRC)]
    pys = [f for f in files if f.endswith(".py")]
    pyxs = [f for f in files if f.endswith(".pyx")]
    hdrs = [f for f in files if f.endswith(".h")]
    tables = os.path.join(SRC, "_match_tables.py")
    tree = _h(pys + pyxs + hdrs)
    pkgroot = os.path.join(BUILD, "pkg-" + tree)
    done = os.path.join(pkgroot, ".done")
    if os.path.exists(done):
        os.utime(done)
        return pkgroot
    with open(os.path.join(BUILD, ".lock"), "w") as lk:
        fcntl.flock(lk, fcntl.LOCK_EX)
        if os.path.exists(done):
            return pkgroot
        modcache = os.path.join(BUILD, "mods")
        os.makedirs(modcache, exist_ok=True)
        jobs = []
        for pyx in pyxs:
            mod = os.path.basename(pyx)[:-4]
            key = _h([pyx] + hdrs + [tables])
            so = os.path.join(modcache, f"{mod}-{key}.so")
            jobs.append((mod, pyx, so))
        todo = [j for j in jobs if not os.path.exists(j[2])]
        if todo:
            if verbose:
                print(f"[build] compiling {[j[0] for j in todo]}", file=sys.stderr)
            with ThreadPoolExecutor(4) as ex:
                list(ex.map(lambda j: _compile(j[0], j[1], hdrs, j[2]), todo))
        tmp = pkgroot + f".tmp{os.getpid()}"
        shutil.rmtree(tmp, ignore_errors=True)
        pk = os.path.join(tmp, "cutadapt")
        os.makedirs(pk)
        for p in pys:
            shutil.copy(p, pk)
        suffix = ".cpython-%d%d-x86_64-linux-gnu.so" % sys.version_info[:2]
        for mod, _, so in jobs:
            shutil.copy(so, os.path.join(pk, mod + suffix))
        open(os.path.join(tmp, ".done"), "w").close()
        shutil.rmtree(pkgroot, ignore_errors=True)
        os.replace(tmp, pkgroot)
        # keep the cache small: at most 8 package dirs, 32 module objects; never remove a package dir that was
        # used in the last three hours (a check running in parallel may still be importing from it lazily)
        mt = lambda d: os.path.getmtime(os.path.join(BUILD, d, ".done")) if os.path.exists(os.path.join(BUILD, d, ".done")) else 0
        pk_dirs = sorted((d for d in os.listdir(BUILD) if d.startswith("pkg-") and ".tmp" not in d), key=mt)
        for d in pk_dirs[:-8]:
            if time.time() - mt(d) > 3 * 3600:
                shutil.rmtree(os.path.join(BUILD, d), ignore_errors=True)
        mods = sorted(os.listdir(modcache), key=lambda f: os.path.getmtime(os.path.join(modcache, f)))
        for f in mods[:-32]:
            if time.time() - os.path.getmtime(os.path.join(modcache, f)) > 3 * 3600:
                os.unlink(os.path.join(modcache, f))
    if verbose:
        print(f"[build] {pkgroot} in {time.time()-t0:.1f}s", file=sys.stderr)
    return pkgroot


def activate():
    """Build and put the package in front of sys.path (beats the editable .pth)."""
    root = build()
    sys.path.insert(0, root)
    for m in [m for m in sys.modules if m == "cutadapt" or m.startswith("cutadapt.")]:
        del sys.modules[m]
    import cutadapt  # noqa
    assert os.path.dirname(os.path.dirname(cutadapt.__file__)) == root, cutadapt.__file__
    # import everything now: nothing is imported lazily from the cache directory later
    import importlib
    for f in sorted(os.listdir(os.path.join(root, "cutadapt"))):
        m = f.split(".")[0]
        if m and m not in ("__init__", "__main__", "__pycache__"):
            try:
                importlib.import_module("cutadapt." + m)
            except Exception:  # noqa  (a tree that does not import is reported by the check that uses it)
                pass
    return root


if __name__ == "__main__":
    print(build(verbose=True))
