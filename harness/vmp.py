"""
Virtual multiprocessing: run the real multi-core runner (runners.py, unchanged) inside one
process under a deterministic scheduler.

* `runners.mpctx` is replaced by a context whose Pipe()/Queue() are in-memory FIFOs;
* ReaderProcess/WorkerProcess.start() run `self.run` in a thread, after deep-copying the
  (pipeline, proxy_files) a fork would copy; join/terminate/active_children/wait are emulated;
* exactly one thread holds the baton.  The hook events of cutadapt._verif are the scheduling
  points (linearisation points); a blocking receive on an empty channel parks the thread.
* A policy decides who runs next: a scripted action list (TLC behaviour) or a seeded random
  choice with per-actor weights (adversarial schedules).

The global event log (total order) is what the trace specification validates.
"""
import copy
import random
import threading


class Killed(BaseException):
    pass


class Deadlock(Exception):
    pass


class VConn:
    """One end of a one-way pipe (shared deque)."""

    def __init__(self, sched, buf, name):
        self.sched, self.buf, self.name = sched, buf, name
        self.closed = False

    def send(self, obj):
        self.buf.append(("obj", copy.deepcopy(obj) if not isinstance(obj, (int, bytes, str)) else obj))

    def send_bytes(self, b):
        self.buf.append(("bytes", bytes(b)))

    def _get(self):
        self.sched.block_until(lambda: len(self.buf) > 0, f"recv({self.name})")
        return self.buf.pop(0)

    def recv(self):
        return self._get()[1]

    def recv_bytes(self):
        return self._get()[1]

    def poll(self, timeout=0):
        return len(self.buf) > 0

    def close(self):
        self.closed = True

    def fileno(self):
        raise OSError("virtual connection")


class VQueue:
    def __init__(self, sched):
        self.sched, self.buf = sched, []

    def put(self, x):
        self.buf.append(x)

    def get(self):
        self.sched.block_until(lambda: len(self.buf) > 0, "queue.get")
        return self.buf.pop(0)


class VContext:
    def __init__(self, sched):
        self.sched = sched
        self.npipes = 0

    def Pipe(self, duplex=False):
        buf = []
        self.npipes += 1
        return VConn(self.sched, buf, f"p{self.npipes}r"), VConn(self.sched, buf, f"p{self.npipes}w")

    def Queue(self):
        return VQueue(self.sched)


class Actor:
    def __init__(self, name, thread=None):
        self.name = name
        self.thread = thread
        self.finished = False
        self.killed = False
        self.terminal = False
        self.cond = None      # callable: runnable when it returns True (parked on a blocking op)
        self.what = ""


class RandomPolicy:
    """Seeded random choice among runnable actors; weights bias towards starvation patterns."""

    def __init__(self, seed, weights=None, ready_subsets=False):
        self.rng = random.Random(seed)
        self.weights = weights or {}
        self.ready_subsets = ready_subsets

    def choose(self, sched, runnable, yielder, record):
        names = sorted(a.name for a in runnable)
        ws = [self.weights.get(n, 1.0) for n in names]
        return self.rng.choices(names, ws)[0]

    def ready_order(self, ready):
        if not self.ready_subsets or len(ready) <= 1:
            return ready
        k = self.rng.randint(1, len(ready))
        sub = self.rng.sample(ready, k)
        return sub


class ScriptPolicy:
    """Follow a list of (actor, expected event name) steps; fall back to random afterwards."""

    def __init__(self, steps, seed=0, ready_lists=None):
        self.steps = list(steps)
        self.ptr = 0
        self.mismatch = None
        self.fallback = RandomPolicy(seed)
        self.ready_lists = list(ready_lists or [])

    def choose(self, sched, runnable, yielder, record):
        names = {a.name for a in runnable}
        if self.mismatch is None and record is not None and self.ptr < len(self.steps):
            exp_actor, exp_ev = self.steps[self.ptr]
            if record["role"] == exp_actor and (exp_ev is None or record["ev"] in exp_ev):
                self.ptr += 1
            else:
                self.mismatch = dict(at=self.ptr, expected=[exp_actor, list(exp_ev or [])], got=[record["role"], record["ev"]])
        if self.mismatch is None and self.ptr < len(self.steps):
            want = self.steps[self.ptr][0]
            if want in names:
                return want
            # silent steps: an actor that has emitted its last event only needs the baton to exit
            ending = sorted(a.name for a in runnable if a.terminal)
            if ending:
                return ending[0]
            self.mismatch = dict(at=self.ptr, expected=[want, "runnable"], got=sorted(names))
        return self.fallback.choose(sched, runnable, yielder, record)

    def ready_order(self, ready):
        if self.mismatch is None and self.ready_lists:
            want = self.ready_lists.pop(0)
            if set(want) <= set(ready):
                return list(want)
            self.mismatch = dict(at=self.ptr, expected=["ready", want], got=ready)
        return ready


class Scheduler:
    def __init__(self, policy):
        self.policy = policy
        self.lock = threading.Condition()
        self.actors = {}
        self.current = "M"
        self.log = []
        self.deadlock = None
        self.aborted = False
        self.tls = threading.local()
        self.actors["M"] = Actor("M")
        self.tls.name = "M"
        self.steps = 0

    # ---- identity ------------------------------------------------------
    def me(self):
        return self.actors[self.tls.name]

    # ---- core: hand the baton to the next actor ------------------------------
    def _runnable(self):
        res = []
        for a in self.actors.values():
            if a.finished or a.killed:
                continue
            if a.cond is None or a.cond():
                res.append(a)
        return res

    def _yield(self, record=None):
        """Called with the baton held.  Picks the next actor; returns when we hold it again."""
        me = self.me()
        with self.lock:
            self.steps += 1
            if self.steps > 200000:
                self.aborted = True
                self.deadlock = dict(kind="livelock", steps=self.steps)
            runnable = self._runnable()
            if not runnable or self.aborted:
                if not self.aborted:
                    self.deadlock = dict(kind="deadlock", waiting={a.name: a.what for a in self.actors.values()
                                                                   if not a.finished and not a.killed})
                self.aborted = True
                # wake M so that it can unwind; everybody else dies
                self.current = "M"
                self.lock.notify_all()
            else:
                nxt = self.policy.choose(self, runnable, me, record)
                self.current = nxt
                self.lock.notify_all()
            self._wait_for_baton(me)

    def _wait_for_baton(self, me):
        while True:
            if me.killed or (self.aborted and me.name != "M"):
                raise Killed()
            if self.current == me.name:
                if self.aborted and me.name == "M":
                    raise Deadlock(str(self.deadlock))
                return
            self.lock.wait(5.0)

    # ---- used by channels -------------------------------------------------
    def block_until(self, cond, what):
        me = self.me()
        while not cond():
            me.cond, me.what = cond, what
            self._yield(None)          # parked: no event
        me.cond, me.what = None, ""

    # ---- hook entry point --------------------------------------------------
    def on_event(self, record):
        record = dict(record)
        record.pop("pid", None)
        record.pop("seq", None)
        record["n"] = len(self.log)
        self.log.append(record)
        if record["ev"] in ("w_stats", "w_exc", "r_done", "r_fail"):
            self.me().terminal = True
        self._yield(record)

    # ---- process emulation ---------------------------------------------------
    def start_process(self, name, proc):
        actor = Actor(name)
        self.actors[name] = actor

        def body():
            self.tls.name = name
            try:
                with self.lock:
                    self._wait_for_baton(actor)
                proc.run()
            except Killed:
                pass
            except BaseException as e:  # noqa
                actor.error = e
            finally:
                actor.finished = True
                with self.lock:
                    if self.current == name and not self.aborted:
                        runnable = self._runnable()
                        if runnable:
                            self.current = self.policy.choose(self, runnable, actor, None)
                        else:
                            self.deadlock = dict(kind="deadlock", waiting={a.name: a.what for a in self.actors.values()
                                                                           if not a.finished and not a.killed})
                            self.aborted = True
                            self.current = "M"
                    self.lock.notify_all()

        t = threading.Thread(target=body, daemon=True, name=f"vmp-{name}")
        actor.thread = t
        t.start()

    def join(self, name):
        a = self.actors.get(name)
        if a is None:
            return
        self.block_until(lambda: a.finished or a.killed, f"join({name})")

    def kill_all(self):
        with self.lock:
            for a in self.actors.values():
                if a.name != "M" and not a.finished:
                    a.killed = True
            self.lock.notify_all()

    def vwait(self, connections):
        self.block_until(lambda: any(len(c.buf) > 0 for c in connections), "wait")
        ready = [c for c in connections if len(c.buf) > 0]
        idx = {id(c): i for i, c in enumerate(self._main_conns)} if getattr(self, "_main_conns", None) else None
        if idx is not None:
            order = self.policy.ready_order([idx[id(c)] for c in ready])
            ready = [self._main_conns[i] for i in order]
        return ready


class _Child:
    def __init__(self, sched, name):
        self.sched, self.name = sched, name

    def terminate(self):
        a = self.sched.actors[self.name]
        if not a.finished:
            a.killed = True


def run_virtual(fn, policy):
    """
    Run fn() (which calls cutadapt.cli.main with -j N) under the virtual scheduler.
    Returns (result of fn or exception, scheduler).
    """
    import multiprocessing
    import multiprocessing.connection
    import cutadapt.runners as R
    import cutadapt._verif as V

    sched = Scheduler(policy)
    ctx = VContext(sched)
    saved = dict(mpctx=R.mpctx, r_start=R.ReaderProcess.start, r_join=R.ReaderProcess.join,
                 w_start=R.WorkerProcess.start, w_join=R.WorkerProcess.join,
                 wait=multiprocessing.connection.wait, active=multiprocessing.active_children,
                 on=V.ON, sch=V.scheduler, sw=R.ParallelPipelineRunner._start_workers)

    def r_start(self):
        self._vname = "R"
        sched.start_process("R", self)

    def w_start(self):
        self._vname = f"W{self._id}"
        # the copy a fork (or a pickle round trip) would make, references between pipeline and
        # proxy files preserved
        self._pipeline, self._proxy_files = copy.deepcopy((self._pipeline, self._proxy_files))
        sched.start_process(self._vname, self)

    def p_join(self, timeout=None):
        sched.join(self._vname)

    orig_sw = saved["sw"]

    def start_workers(self, pipeline, proxy_files):
        workers, connections = orig_sw(self, pipeline, proxy_files)
        sched._main_conns = list(connections)
        return workers, connections

    def active_children():
        return [_Child(sched, n) for n in sched.actors if n != "M"]

    R.mpctx = ctx
    R.ReaderProcess.start = r_start
    R.ReaderProcess.join = p_join
    R.WorkerProcess.start = w_start
    R.WorkerProcess.join = p_join
    R.ParallelPipelineRunner._start_workers = start_workers
    multiprocessing.connection.wait = sched.vwait
    multiprocessing.active_children = active_children
    V.ON = True
    V.scheduler = sched.on_event
    result = None
    try:
        try:
            result = fn()
        except Deadlock as d:
            result = d
    finally:
        sched.kill_all()
        R.mpctx = saved["mpctx"]
        R.ReaderProcess.start = saved["r_start"]
        R.ReaderProcess.join = saved["r_join"]
        R.WorkerProcess.start = saved["w_start"]
        R.WorkerProcess.join = saved["w_join"]
        R.ParallelPipelineRunner._start_workers = saved["sw"]
        multiprocessing.connection.wait = saved["wait"]
        multiprocessing.active_children = saved["active"]
        V.ON = saved["on"]
        V.scheduler = saved["sch"]
        sched.aborted = True
        with sched.lock:
            sched.lock.notify_all()
    return result, sched
