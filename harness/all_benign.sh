#!/bin/bash
# usage: all_benign.sh [benign/<dir> ...]   -- development tool, not a MANIFEST check
# Runs the quick check of the property a *property-preserving* change (benign/<P>_b<i>/) was written for against a
# scratch copy of /repo/src with the change applied.  Expected for every one: exit=0 (no VIOLATION, no machinery
# failure).  Anything else is a false alarm (or a fragile harness) to be corrected in the machinery.
cd /verif
dirs=("$@"); [ ${#dirs[@]} -eq 0 ] && dirs=(benign/*/)
bad=0
for d in "${dirs[@]}"; do
  d=${d%/}
  p=$(ls $d/patch_rebased*.diff 2>/dev/null | tail -1); [ -z "$p" ] && p=$d/patch.diff
  pid=$(/venv/bin/python -c "import json; print(json.load(open('$d/meta.json'))['property'])" 2>/dev/null)
  out=$(TAIL=400 harness/mutant_run.sh "$p" "$pid" 2>&1 | grep -v "^WARNING\|^KNOWN-FINDING")
  rc=$(echo "$out" | grep -o "exit=[0-9]*" | tail -1)
  echo "$rc $pid $d $(echo "$out" | grep -c '^VIOLATION') violations $(echo "$out" | grep -o 'clause=[^ ]*' | sort -u | head -5 | tr '\n' ' ')"
  if [ "$rc" != "exit=0" ]; then bad=$((bad+1)); echo "$out" | tail -15 | sed 's/^/    | /'; fi
done
echo "$bad of ${#dirs[@]} property-preserving changes raised an alarm or broke the machinery"
[ $bad -eq 0 ]
