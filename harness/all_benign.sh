#!/bin/bash
# usage: all_benign.sh <dir with */benign/b*/patch.diff or benign/<name>/patch.diff> [PID-filter]  -- development tool
# Runs the quick check of the property a property-preserving change was written for against a scratch copy of
# /repo/src with the change applied.  Expected: exit 0 (no VIOLATION, no machinery failure).
cd /verif
for p in "$@"; do
  meta=$(dirname "$p")/meta.json
  pid=$(/venv/bin/python -c "import json,sys; print(json.load(open('$meta'))['property'])" 2>/dev/null)
  out=$(TAIL=400 harness/mutant_run.sh "$p" "$pid" 2>&1 | grep -v "^WARNING\|^KNOWN-FINDING")
  rc=$(echo "$out" | grep -o "exit=[0-9]*" | tail -1)
  echo "$rc $pid $p $(echo "$out" | grep -c '^VIOLATION') violations $(echo "$out" | grep -o 'clause=[^ ]*' | sort -u | head -5 | tr '\n' ' ')"
  if [ "$rc" != "exit=0" ]; then echo "$out" | tail -15 | sed 's/^/    | /'; fi
done
