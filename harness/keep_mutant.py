#!/venv/bin/python
"""usage: keep_mutant.py <PID> <mutant dir> <caught-by: comma list or 'MISSED'> [note]  -- store a confirmed seeded change"""
import json, os, shutil, sys
pid, src, caught = sys.argv[1], sys.argv[2], sys.argv[3]
note = sys.argv[4] if len(sys.argv) > 4 else ""
name = os.path.basename(os.path.normpath(src))
dst = f"/verif/seeded/{pid}_{name}"
os.makedirs(dst, exist_ok=True)
for f in ("patch.diff", "demo.py"):
    shutil.copy(os.path.join(src, f), dst)
meta = json.load(open(os.path.join(src, "meta.json")))
meta["property"] = pid
meta["confirmed"] = dict(
    how="harness/confirm_mutant.sh in a scratch worktree: patch applies to the pinned commit, test suite 696 passed / 1 pre-existing failure with the patch, demo.py exits 1 with and 0 without the patch",
    check_run=f"harness/mutant_run.sh seeded/{pid}_{name}/patch.diff <property> (scratch copy of /repo/src, never /repo)",
)
meta["detected_by"] = [] if caught == "MISSED" else caught.split(",")
if note:
    meta["note"] = note
json.dump(meta, open(os.path.join(dst, "meta.json"), "w"), indent=1)
print(dst)
