#!/venv/bin/python
"""usage: cross_matrix.py [-j N] [--per N]   -- development tool, not a MANIFEST check

Cross-property alarms: runs the quick check of every pipeline-family property X against seeded changes written for
*other* properties Y (N per property, default 2) and reports where X raises an alarm.  An alarm of X on a change
that breaks only Y is an attribution error (the blame filter of family_check exists to avoid them); the table goes
to seeded/CROSS.json."""
import concurrent.futures as cf
import glob
import json
import os
import re
import subprocess
import sys

ROOT = "/verif"
FAMILY = ["C03", "C04", "C05", "C09", "C10", "C11", "C15", "C16", "C17", "C20"]
SOURCES = FAMILY + ["C13", "C14"]


def patch_of(d):
    reb = sorted(glob.glob(os.path.join(d, "patch_rebased*.diff")))
    return reb[-1] if reb else os.path.join(d, "patch.diff")


def one(job):
    d, x = job
    env = dict(os.environ, TAIL="400")
    r = subprocess.run([os.path.join(ROOT, "harness/mutant_run.sh"), patch_of(d), x], capture_output=True, text=True, env=env)
    out = r.stdout + r.stderr
    m = re.search(r"exit=(\d+)", out)
    rc = int(m.group(1)) if m else -1
    return dict(mutant=os.path.basename(d), check=x, exit=rc, clauses=sorted(set(re.findall(r"clause=(\S+)", out)))[:5])


def main():
    args = sys.argv[1:]
    jobs_n, per = 3, 2
    while args:
        a = args.pop(0)
        if a == "-j":
            jobs_n = int(args.pop(0))
        elif a == "--per":
            per = int(args.pop(0))
    jobs = []
    for y in SOURCES:
        ds = sorted(d for d in glob.glob(os.path.join(ROOT, "seeded", y + "_*")) if os.path.isdir(d))
        # one of each round first
        pick = [d for d in ds if re.search(r"_m1$", d)][:per]
        for d in pick:
            for x in FAMILY:
                if x != y:
                    jobs.append((d, x))
    res = []
    with cf.ThreadPoolExecutor(jobs_n) as ex:
        for r in ex.map(one, jobs):
            flag = {0: "silent", 1: "ALARM", 3: "n/a"}.get(r["exit"], f"exit{r['exit']}")
            print(f"{flag:7s} {r['check']} on {r['mutant']:16s} {' '.join(r['clauses'])[:100]}", flush=True)
            res.append(r)
    json.dump(res, open(os.path.join(ROOT, "seeded", "CROSS.json"), "w"), indent=1)
    alarms = [r for r in res if r["exit"] == 1]
    print(f"{len(res)} pairs, {len(alarms)} cross alarms")


if __name__ == "__main__":
    main()
