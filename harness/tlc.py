"""
TLC driver: model checking runs and sharded trace validation.

java is called directly (the `tlc` wrapper forces ParallelGC, measured 3x slower
for trace checking and it cannot be overridden).
"""
import json
import os
import re
import shutil
import subprocess
import time
from concurrent.futures import ThreadPoolExecutor

VERIF = os.path.dirname(os.path.dirname(os.path.abspath(__file__)))
SPEC = os.path.join(VERIF, "spec")
JARS = "/opt/veriftools/tla/tla2tools.jar:/opt/veriftools/tla/CommunityModules-deps.jar"


class TLCFailure(Exception):
    """Machinery failure (parse error, time-out, evaluation error): exit status 2, never a verdict."""


RE_STATES = re.compile(r"(\d+) states generated, (\d+) distinct states found")
RE_INV = re.compile(r"Error: Invariant (\S+) is violated")
RE_PROP = re.compile(r"Error: (Action|Temporal) propert(y|ies) (.*)(is|were) violated")


def _java(spec, cfg, metadir, workers, extra, env, timeout, xmx="3g", gc="-XX:+UseSerialGC", jvm=()):
    os.makedirs(metadir, exist_ok=True)
    cmd = [
        # (TLC's own temporary directories go below the metadir, which is removed afterwards, not to /tmp)
        "java", gc, "-Xss256m", f"-Xmx{xmx}", "-XX:-UsePerfData", f"-Djava.io.tmpdir={metadir}", *jvm, "-cp", JARS, "tlc2.TLC",
        "-workers", str(workers), "-metadir", metadir, "-noGenerateSpecTE",
        "-config", cfg,
    ] + list(extra) + [spec]
    e = dict(os.environ)
    e.update(env or {})
    e.pop("JAVA_TOOL_OPTIONS", None)
    t0 = time.time()
    try:
        r = subprocess.run(cmd, cwd=SPEC, env=e, stdout=subprocess.PIPE, stderr=subprocess.STDOUT,
                           text=True, timeout=timeout)
    except subprocess.TimeoutExpired as ex:
        out = ex.stdout if isinstance(ex.stdout, str) else (ex.stdout or b"").decode(errors="replace")
        raise TLCFailure(f"TLC timed out after {timeout}s on {spec} {cfg}\n{out[-2000:]}")
    finally:
        shutil.rmtree(metadir, ignore_errors=True)
    return r.returncode, r.stdout, time.time() - t0


def model_check(spec, cfg, scratch, workers=8, timeout=1500, extra=(), env=None, xmx="6g",
                expect_violation=None, coverage=False):
    """
    Run TLC on spec/<spec>.tla with spec/<cfg>.  Returns dict with states, transitions,
    violated (name of a violated invariant/property or None), out.
    A run that ends with any error other than a property violation raises TLCFailure.
    """
    metadir = os.path.join(scratch, f"meta-{os.path.basename(cfg)}-{time.time_ns()}")
    ex = list(extra)
    if coverage:
        ex = ["-coverage", "1"] + ex
    rc, out, wall = _java(spec + ".tla", cfg, metadir, workers, ex, env, timeout, xmx=xmx)
    m = RE_STATES.findall(out)
    states = int(m[-1][1]) if m else 0
    gen = int(m[-1][0]) if m else 0
    violated = None
    mi = RE_INV.search(out)
    if mi:
        violated = mi.group(1)
    elif RE_PROP.search(out):
        violated = "temporal"
    elif "Deadlock reached" in out:
        violated = "deadlock"
    ok_end = "Model checking completed. No error has been found." in out or \
             "Finished computing initial states" in out and violated
    if violated is None and not ("No error has been found" in out):
        if "The number of states generated" in out or "Progress:" in out and "-simulate" in " ".join(ex):
            pass
        else:
            raise TLCFailure(f"TLC failed on {spec} {cfg} (rc={rc}):\n{out[-3000:]}")
    return dict(spec=spec, cfg=cfg, states=states, transitions=gen, violated=violated, out=out, nout=normalize(out),
                wall_s=round(wall, 2))


def coverage_actions(out):
    """Parse `-coverage 1` output: {action name: (distinct, total)}."""
    res = {}
    for m in re.finditer(r"<(\w+) line \d+, col \d+ to line \d+, col \d+ of module (\w+)>: (\d+):(\d+)", out):
        res[m.group(1)] = (int(m.group(3)), int(m.group(4)))
    return res


def normalize(out):
    """TLC pretty-prints long values over several lines: collapse all white space."""
    return re.sub(r"\s+", " ", out).replace("<< ", "<<").replace(" >>", ">>")


RE_V = re.compile(r'<<"VIOL", ([^<>]*)>>')


def _parse_tla_value(s):
    # tiny parser for the tuples we print: ints and strings only
    out = []
    for tok in re.findall(r'"((?:[^"\\]|\\.)*)"|(-?\d+)', s):
        out.append(tok[0] if tok[1] == "" else int(tok[1]))
    return out


def trace_check(spec, cfg, events, scratch, shards=8, timeout=1500, env=None, tag="t"):
    """
    Validate `events` (list of JSON-able dicts, each with integer field "id") against
    trace spec spec/<spec>.tla.  The spec walks the ndjson file line by line, prints
    <<"VIOL", id, clause>> for each rejected clause and continues.
    Returns (violations: list of (id, clause), n_states).
    Raises TLCFailure if a shard did not consume all its lines.
    """
    if not events:
        return [], 0
    shards = max(1, min(shards, (len(events) + 399) // 400))
    parts = [events[i::shards] for i in range(shards)]

    def run(i):
        part = parts[i]
        path = os.path.join(scratch, f"{tag}-{i}.ndjson")
        with open(path, "w") as f:
            for e in part:
                f.write(json.dumps(e, separators=(",", ":")) + "\n")
        metadir = os.path.join(scratch, f"meta-{tag}-{i}-{time.time_ns()}")
        e = dict(env or {})
        e["TRACE_FILE"] = path
        rc, out, wall = _java(spec + ".tla", cfg, metadir, 1, [], e, timeout, xmx="2g",
                              jvm=("-XX:TieredStopAtLevel=1",) if len(part) < 20000 else ())
        m = RE_STATES.findall(out)
        distinct = int(m[-1][1]) if m else -1
        if distinct != len(part) + 1 or "No error has been found" not in out:
            raise TLCFailure(
                f"trace spec {spec} consumed {distinct - 1} of {len(part)} events (shard {i}):\n{out[-3000:]}")
        viols = []
        for mv in RE_V.finditer(normalize(out)):
            v = _parse_tla_value(mv.group(1))
            viols.append((v[0], v[1]))
        os.unlink(path)
        return viols, distinct

    with ThreadPoolExecutor(shards) as ex:
        res = list(ex.map(run, range(shards)))
    viols = [v for r in res for v in r[0]]
    return sorted(set(viols)), sum(r[1] for r in res)


def sany(spec):
    r = subprocess.run(["java", "-cp", JARS, "tla2sany.SANY", spec + ".tla"], cwd=SPEC,
                       stdout=subprocess.PIPE, stderr=subprocess.STDOUT, text=True)
    ok = r.returncode == 0 and "error" not in r.stdout.lower().replace("semantic errors:\n\n", "")
    return ok, r.stdout
