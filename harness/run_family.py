"""Configuration / input generators and the common driver of the pipeline-family properties."""
import json
import os

from harness import gen_run as GR

ADAPTERS = ["AGATCGGAAGAG", "CTGTCTCTTATA", "TGGAATTCTCGG", "GATCGTCGGACT", "ACGTACGTTTGCA", "TTAGGCATT", "CCGGAAT", "GGTTCCAAG"]
FRONTS = ["TCGTATG", "GCATTAGC", "AAGCAGTGG", "CTTGTAC"]
NAMES = ["ada", "bob", "cyd", "dee"]


def pick(rng, xs):
    return xs[rng.randrange(len(xs))]


def mutate(rng, s, n):
    s = list(s)
    for _ in range(n):
        op = rng.choice("sid")
        if op == "s" and s:
            i = rng.randrange(len(s))
            s[i] = rng.choice([c for c in "ACGT" if c != s[i]])
        elif op == "i":
            s.insert(rng.randint(0, len(s)), rng.choice("ACGT"))
        elif op == "d" and len(s) > 1:
            del s[rng.randrange(len(s))]
    return "".join(s)


def make_adapters(rng, focus, n, side=1, allow_linked=True, named=False, front_only=False, back_only=False):
    ads = []
    used = set()
    for i in range(n):
        kind = rng.random()
        name = NAMES[i] + (str(side) if side == 2 else "") if (named or rng.random() < 0.4) else None
        def single(opt, seqs):
            seq = pick(rng, [s for s in seqs if s not in used] or seqs)
            if rng.random() < 0.04:
                seq = pick(rng, [s for s in ("G", "AC", "TTG") if s not in used] or ["CA"])      # very short adapters
            used.add(seq)
            restr = rng.choice((None, None, None, "anchor", "ni"))
            if opt == "b":
                restr = None
            d = dict(opt=opt, seq=seq, restr=restr)
            if opt == "g" and restr is None and rng.random() < 0.15:
                d["rightmost"] = True
            if rng.random() < 0.2:
                d["params"] = rng.choice(("e=0.2", "o=4", "noindels", "e=0.25;o=2", "max_errors=1"))
            return d
        if allow_linked and kind < 0.2 and not front_only and not back_only:
            f = single("g" if rng.random() < 0.4 else "a", FRONTS)
            b = single(f["opt"], ADAPTERS)
            f["opt"] = b["opt"]
            f.pop("rightmost", None)
            if f["opt"] == "a":
                f["restr"] = rng.choice((None, "anchor"))        # -a ADAPTER1...ADAPTER2 / ^ADAPTER1...
                f["seq"], b["seq"] = f["seq"], b["seq"]
            else:
                f["restr"] = rng.choice((None, "anchor"))
            if f["restr"] == "anchor":
                f_spec_opt = f["opt"]
                # in a linked spec the 5' part is written ^SEQ regardless of -a/-g
                f["opt_render"] = "g"
            b["restr"] = rng.choice((None, "anchor")) if True else None
            req = rng.choice(("", "", "required", "optional"))
            if req:
                which = rng.choice((f, b))
                which["params"] = ((which.get("params") + ";") if which.get("params") else "") + req
            ad = dict(linked=(f, b), name=name)
        elif (kind < 0.55 or back_only) and not front_only:
            ad = single("a", ADAPTERS)
            ad["name"] = name
        elif kind < 0.85 or front_only:
            ad = single("g", FRONTS + ADAPTERS[4:])
            ad["name"] = name
        else:
            ad = single("b", ADAPTERS)
            ad["name"] = name
        ads.append(ad)
    return ads


def fix_linked_render(ad):
    """adapter_arg renders 5' restrictions with ^ / X in front and 3' ones behind; in a linked
    specification the first part is always a 5' adapter and the second a 3' adapter."""
    if ad.get("linked"):
        f, b = ad["linked"]
        f2 = dict(f)
        b2 = dict(b)
        opt = f["opt"]
        f2["opt"], b2["opt"] = "g", "a"
        ad2 = dict(ad)
        ad2["linked"] = (f2, b2)
        ad2["_opt"] = opt
        return ad2
    return ad


def adapter_seqs(ad):
    if ad.get("linked"):
        return [ad["linked"][0]["seq"], ad["linked"][1]["seq"]]
    return [ad["seq"]]


def make_read(rng, k, ads, C, side=1):
    """A read in which every configured stage has something to do (most of the time)."""
    body = "".join(rng.choice("ACGT") for _ in range(rng.randint(0, 6) if (C.get("_short") and rng.random() < 0.6) else rng.randint(0, 22)))
    if C.get("_long") and k == 0:
        body = "".join(rng.choice("ACGT") for _ in range(rng.randint(1001, 1060)))          # a long read (PacBio / Nanopore sized)
    if rng.random() < 0.12:
        body = body.lower() if rng.random() < 0.5 else "".join(rng.choice((c, c.lower())) for c in body)
    if rng.random() < (0.25 if C.get("_dimers") else 0.05):
        body = ""                      # nothing but adapter: the read is empty after trimming
    seq = body
    if C.get("_tie") and ads:
        # two complete, error-free adapters of equal length: which one is removed is decided by the order
        present = [a for a in ads if rng.random() < 0.7] or ads[:1]
        left = "".join(a["seq"] for a in present if a["opt"] == "g" and a.get("restr") == "anchor") or \
               "".join(a["seq"] for a in present if a["opt"] == "g")[:7]
        right = "".join(a["seq"] for a in present if a["opt"] == "a" and a.get("restr") != "anchor")[:7] + \
                "".join(a["seq"] for a in present if a["opt"] == "a" and a.get("restr") == "anchor")[:7]
        seq = left + body.upper() + right
        ads = []
    if C.get("_embed") and side == 1 and rng.random() < 0.7:
        seq = body.upper() + C["_embed"] + "".join(rng.choice("ACGT") for _ in range(rng.choice((0, 2, 5))))
        ads = []
    if C.get("_nfamily") and side == 1 and rng.random() < 0.75:
        nf = C["_nfamily"]
        v = list(nf["base"])
        for i in nf["pos"]:
            if rng.random() < 0.5:
                v[i] = "N"
        seq = ("".join(v) + body.upper()) if nf["opt"] == "g" else (body.upper() + "".join(v))
        ads = []
    if ads and rng.random() < 0.8:
        ad = pick(rng, ads)
        parts = adapter_seqs(ad)
        if ad.get("linked"):
            f, b = parts
            fo = mutate(rng, f, rng.choice((0, 0, 1))) if rng.random() < 0.8 else ""
            bo = mutate(rng, b, rng.choice((0, 0, 1)))[: rng.randint(min(3, len(b)), len(b))] if rng.random() < (0.4 if C.get("_onlyfront") else 0.7) else ""
            seq = fo + body + bo + "".join(rng.choice("ACGT") for _ in range(rng.choice((0, 0, 3))))
            if rng.random() < 0.15:
                seq = f                      # the 5' part is the whole read: nothing is left for the 3' part
        else:
            occ = mutate(rng, parts[0], rng.choice((0, 0, 0, 1, 2)))
            opt = ad["opt"]
            where = rng.random()
            if opt == "a" or (opt == "b" and where < 0.5):
                seq = body + rng.choice((occ, occ[: rng.randint(min(2, len(occ)), max(1, len(occ)))], occ + "".join(rng.choice("ACGT") for _ in range(rng.randint(1, 5)))))
            else:
                seq = rng.choice((occ, occ[rng.randint(0, max(0, len(occ) - 3)):], "".join(rng.choice("ACGT") for _ in range(rng.randint(1, 4))) + occ)) + body
            if C.get("_repeat") and rng.random() < 0.7:       # the same adapter twice: removed in two rounds
                o2 = mutate(rng, parts[0], rng.choice((0, 0, 1)))
                mid = "".join(rng.choice("ACGT") for _ in range(rng.randint(0, 4)))
                seq = (seq + mid + o2) if opt != "g" else (o2 + mid + seq)
            elif rng.random() < 0.25 and len(ads) > 1:          # a second adapter: several rounds / best-of
                other = pick(rng, ads)
                o2 = mutate(rng, adapter_seqs(other)[-1], rng.choice((0, 1)))
                seq = (seq + o2) if other.get("opt", "a") != "g" else (o2 + seq)
        if C.get("revcomp") and C.get("paired") and rng.random() < (0.5 if C.get("action") in ("mask", "lowercase") else 0.3):
            # a partial occurrence of an adapter of the other mate: a hit in the orientation that may not be chosen
            others = [a for a in (C.get("ads2") if side == 1 else C.get("ads1")) or [] if not a.get("linked") and a.get("opt") == "a"]
            if others:
                o = pick(rng, others)["seq"]
                seq = seq + o[: rng.randint(min(3, len(o)), min(7, len(o)))]
        if C.get("revcomp") and rng.random() < 0.5:
            seq = GR.revcomp(seq)
            if C.get("_repeat") and not ad.get("linked") and rng.random() < 0.6:
                # the given orientation holds one complete copy as well: the reverse complement is better only
                # by its total over several rounds
                seq = (parts[0] + seq) if ad["opt"] == "g" else (seq + parts[0])
    if C.get("_rna") and rng.random() < 0.7:
        seq = seq.replace("T", "U").replace("t", "u")          # RNA alphabet: U is complemented to A, matches like T
    if C.get("polya") and rng.random() < 0.6:
        tail = ["A"] * rng.choice((2, 3, 5, 8, 10))
        if rng.random() < 0.4:
            tail[rng.randrange(len(tail))] = "C"
        seq = (seq + "".join(tail)) if side == 1 else ("".join("T" if c == "A" else "G" for c in tail) + seq)
    if (C.get("trimn") or C.get("maxn") is not None) and rng.random() < 0.5:
        seq = "N" * rng.randint(0, 2) + seq + "N" * rng.randint(0, 3)
        if rng.random() < 0.3 and len(seq) > 2:
            i = rng.randrange(len(seq))
            seq = seq[:i] + rng.choice("Nn") + seq[i + 1:]
    if len(seq) == 0 and rng.random() < 0.7:
        seq = "".join(rng.choice("ACGT") for _ in range(rng.randint(1, 6)))
    base = C.get("qbase", 33)
    quals = [rng.choice((2, 8, 12, 20, 30, 38, 40)) for _ in seq]
    if (C.get("q") or C.get("nextseq") is not None) and rng.random() < 0.7:
        for i in range(len(quals)):
            if i < 3 or i >= len(quals) - 4:
                quals[i] = rng.choice((2, 5, 9, 11, 25))
    if C.get("zerocap") and rng.random() < 0.5 and quals:
        quals[rng.randrange(len(quals))] = -rng.randint(1, 3)
    if C.get("nextseq") is not None and rng.random() < 0.5:
        g = rng.randint(1, 5)
        seq = seq + "G" * g
        quals += [38] * g
    qual = "".join(chr(base + q) for q in quals)
    name = f"rd{k}x"
    ws = C.get("_name_ws")          # unusual header layouts: tab / two blanks / another word before the comment field
    if C.get("casava") or rng.random() < 0.3:
        sep = rng.choice((" ", " ", "\t", "  ", "\tx ")) if ws else " "
        name += f"{sep}{side}:{'Y' if rng.random() < (0.5 if ws else 0.35) else 'N'}:0:ACG"
    if C.get("lengthtag"):
        name += (rng.choice((" ", "|", "\t", "  ", "_")) if ws else (" " if rng.random() < 0.8 else "_")) + C["lengthtag"] + str(rng.randint(0, 99))
    for s in C.get("strip", []):
        if rng.random() < 0.5:
            name += s
    return (name, seq, qual)


SCENARIOS = {
    "C03": [dict(indexed_n=True, indexed_equal=True, action="mask", times=1), dict(indexed_n=True, indexed_equal=True, action="lowercase", times=1),
            dict(indexed_n=True, action="retain", times=1), dict(indexed_n=True, action="mask", times=2),
            dict(paired=True, revcomp=True, action="mask"), dict(paired=True, revcomp=True, action="mask", n_ads=2, times=1), dict(paired=True, revcomp=True, action="lowercase"),
            dict(linked=True, action="lowercase"), dict(linked=True, action="retain"),
            dict(linked=True, back_optional=True, action="lowercase", times=1), dict(linked=True, back_optional=True, action="lowercase", times=2, n_ads=2), dict(action="crop", error_rate=0.2),
            dict(paired=True, pairads=True, action="crop"), dict(paired=True, pairads=True, action="mask"),
            dict(times=3, action="mask"), dict(times=2, action="lowercase"), dict(revcomp=True, action="retain"),
            dict(action="none", times=2), dict(fmt="fasta", action="mask")],
    "C17": [dict(linked=True, times=2, n_ads=3), dict(linked=True, times=3, n_ads=2), dict(minlen="8", maxlen="18"),
            dict(revcomp=True, times=2), dict(paired=True), dict(linked=True, revcomp=True), dict(duntrim=True), dict(maxn=(0, 1, "0")),
            dict(indexed_n=True, times=1), dict(indexed_n=True, times=2)],
    "C09": [dict(score_ties=True, times=1, error_rate=0.2, overlap=3), dict(score_ties=True, times=2, error_rate=0.2, overlap=3, action="mask"),
            dict(tie_order=True, index=True, times=1, action="trim", error_rate=0.1, overlap=3), dict(tie_order=True, index=True, times=1, action="mask"),
            dict(tie_order=True, times=2),
            dict(linked=True, times=2, n_ads=3), dict(n_ads=4, times=3), dict(n_ads=3, action="mask", times=2),
            dict(n_ads=3, action="lowercase", times=3), dict(linked=True, action="retain"), dict(paired=True, times=2, n_ads=2),
            dict(paired=True, times=2, n_ads=2, repeat=True, r2_front=True), dict(paired=True, times=3, n_ads=1, repeat=True, r2_front=True),
            dict(n_ads=2, same_family=True), dict(n_ads=3, same_family=True, times=2),
            dict(linked_vs_single=True, times=1), dict(linked_vs_single=True, times=2, action="lowercase")],
    "C16": [dict(revcomp=True, rna=True), dict(revcomp=True, rna=True, times=2), dict(revcomp=True, cores=2, buffer_size=300, n_reads=16), dict(revcomp=True, cores=3, buffer_size=250, n_reads=18, paired=True),
            dict(revcomp=True, paired=True), dict(revcomp=True, times=2), dict(revcomp=True, error_rate=0.7, overlap=1),
            dict(revcomp=True, times=2, n_ads=1, repeat=True), dict(revcomp=True, times=3, n_ads=2, repeat=True),
            dict(revcomp=True, action="mask"), dict(revcomp=True, paired=True, action="lowercase"), dict(revcomp=True, same_family=True, n_ads=2)],
    "C05": [dict(paired=True, only_r1=True, empty_A_file=True, duntrim=True), dict(paired=True, only_r1=True, empty_A_file=True, untrimout=True, pairfilter="any"),
            dict(paired=True, info=True, dimers=True), dict(paired=True, aux=True, dimers=True, minlen="1", tooshortout=True), dict(paired=True, pairads=True), dict(paired=True, pairads=True, dup_both=True, n_ads=3, rename="{id} a={r1.adapter_name} b={r2.adapter_name}"),
            dict(paired=True, pairads=True, dup_both=True, n_ads=3, demux="normal"),
            dict(paired=True, pairads=True, same_r1=True, demux="normal", n_ads=2),
            dict(paired=True, pairads=True, same_r1=True, n_ads=3, rename="{id} a={r1.adapter_name} b={r2.adapter_name}"),
            dict(paired=True, pairads=True, same_r1=True, n_ads=2, rename="{id} a={r1.adapter_name} b={r2.adapter_name}", info=True), dict(paired=True, interleaved=True, only_r2=True, untrimout=True), dict(paired=True, interleaved=True, untrimout=True),
            dict(paired=True, interleaved=True, minlen="8", tooshortout=True), dict(paired=True, interleaved=True, only_r1=True, untrimout=True), dict(paired=True, pairfilter="both", minlen="8:"), dict(paired=True, pairfilter="first", maxlen=":14"),
            dict(paired=True, only_r2=True, duntrim=True), dict(paired=True, only_r2=True, untrimout=True), dict(paired=True, pairfilter="both", duntrim=True),
            dict(paired=True, pairads=True, same_r1=True, demux="normal", n_ads=2), dict(paired=True, pairads=True, same_r1=True, n_ads=3, rename="{id} a={r1.adapter_name} b={r2.adapter_name}"), dict(paired=True, demux="combi"), dict(paired=True, untrimout=True, pairfilter="both")],
    "C11": [dict(maxee="1", maxaer="0.05"), dict(paired=True, pairfilter="both", duntrim=True), dict(paired=True, only_r2=True, duntrim=True),
            dict(action="lowercase", maxn=(1, 1, "1")), dict(minlen="8", maxlen="14", maxn=(0, 1, "0"), casava=True),
            dict(paired=True, pairfilter="both", dtrim=True), dict(untrimout=True, minlen="5"), dict(paired=True, pairfilter="first", untrimout=True),
            dict(casava=True, name_ws=True), dict(casava=True, name_ws=True, paired=True, pairfilter="any"), dict(casava=True, rename="{comment}_{id}"), dict(casava=True, rename="{comment}_{id}", paired=True, pairfilter="both")],
    "C15": [dict(demux="normal", specialnames=True, n_ads=2), dict(demux="normal", specialnames=True, n_ads=3, paired=True), dict(demux="normal", dupseq=True, n_ads=3), dict(demux="combi", paired=True, dupseq=True, n_ads=2), dict(demux="normal", dupseq=True, n_ads=2, paired=True, duntrim=True),
            dict(demux="combi", paired=True, revcomp=True), dict(demux="normal", paired=True, revcomp=True), dict(demux="normal", revcomp=True, times=2),
            dict(demux="normal", dupname=True, n_ads=3), dict(demux="normal", dupname=True, n_ads=2, paired=True),
            dict(demux="normal", times=2, n_ads=3), dict(demux="combi", paired=True, times=2), dict(demux="normal", casava=True),
            dict(demux="normal", paired=True, untrimout=True), dict(demux="normal", duntrim=True), dict(demux="combi", paired=True, duntrim=True),
            dict(demux="normal", paired=True, casava=True, minlen="6")],
    "C04": [dict(paired=True, info=True, dimers=True), dict(paired=True, info=True, dimers=True, cores=2, buffer_size=300, n_reads=14),
            dict(polya=True, cores=2, buffer_size=250, n_reads=18), dict(polya=True, paired=True, cores=3, buffer_size=400, n_reads=16),
            dict(revcomp=True, cores=2, buffer_size=300, n_reads=16), dict(paired=True, info=True), dict(times=2, n_ads=3), dict(times=3, paired=True), dict(demux="combi", paired=True, duntrim=True),
            dict(maxaer="0.05"), dict(polya=True), dict(paired=True, polya=True, q="10"),
            dict(polya=True, longread=True, n_ads=0, n_reads=3, fmt="fasta", plain=True),
            dict(demux="normal", specialnames=True, n_ads=2), dict(demux="normal", specialnames=True, n_ads=3, paired=True)],
    "C10": [dict(paired=True, cut1=[3], cut2=[], q=None, Q=None, nextseq=None, pairads=True, len2=8, polya=False),
            dict(paired=True, cut1=[2], cut2=[], q=None, Q=None, nextseq=None, revcomp=True, len2=9, polya=False),
            dict(paired=True, cut2=[2], cut1=[], q=None, Q=None, nextseq=None, revcomp=True, len1=9, polya=False),
            dict(cut1=[4, -3], rename="{id} cp={cut_prefix} cs={cut_suffix}", short_reads=True),
            dict(cut1=[-3, 4], rename="{id} cp={cut_prefix} cs={cut_suffix} {comment}", short_reads=True),
            dict(paired=True, cut1=[2, -2], cut2=[-3, 2], rename="{id} {r1.cut_prefix}.{r1.cut_suffix}|{r2.cut_prefix}.{r2.cut_suffix}", short_reads=True),
            dict(lengthtag="length=", rename="{header} x", cut1=[3]), dict(strip=[".x"], rename="{header}|{id}", trimn=True),
            dict(paired=True, len1=8, len2=0), dict(paired=True, len1=10), dict(nextseq=20, q="20"), dict(nextseq=20, q="10", paired=True, Q="20"),
            dict(cut1=[30], lengthtag="length="), dict(polya=True, len1=10, trimn=True), dict(cut1=[3, -2], q="10,10"),
            dict(lengthtag="length=", name_ws=True, cut1=[3], paired=False), dict(lengthtag="length=", name_ws=True, rename="{id}|{comment}", cut1=[2, -1], paired=False),
            dict(zerocap=True, fasta_noop=True, qbase=64, minlen="8", tooshortout=True), dict(zerocap=True, fasta_noop=True, paired=True, maxlen="14", toolongout=True),
            dict(paired=True, q="15,20", Q="25", nextseq=None), dict(paired=True, q="12,10", Q="9", nextseq=None), dict(paired=True, q="15", Q="12,25", nextseq=None)],
    "C20": [dict(linked=True, revcomp=True, cores=2, buffer_size=300, n_reads=16), dict(linked=True, revcomp=True, cores=3, buffer_size=250, n_reads=18),
            dict(revcomp=True, times=3, n_ads=1, repeat=True), dict(revcomp=True, times=2, n_ads=2, repeat=True), dict(times=3, n_ads=1, repeat=True),
            dict(error_rate=0.12), dict(error_rate=0.15, n_ads=2), dict(error_rate=0.3), dict(error_rate=0.34, times=2),
            dict(linked=True, revcomp=True), dict(revcomp=True, times=2, same_family=True), dict(times=3, n_ads=3), dict(paired=True, pairads=True),
            dict(n_ads=2, error_rate=0.1), dict(paired=True, revcomp=True)],
}


def random_config(rng, focus, scenario=None):
    C = _random_config(rng, focus, scenario or {})
    return C


def _random_config(rng, focus, S):
    C = dict(fmt="fastq", paired=False)
    f = focus
    paired = {"C05": 1.0, "C03": 0.3, "C04": 0.3, "C10": 0.3, "C11": 0.3, "C15": 0.4, "C16": 0.35, "C20": 0.35,
              "C09": 0.1, "C17": 0.15}.get(f, 0.2)
    C["paired"] = S["paired"] if "paired" in S else (rng.random() < paired or bool(S.get("pairads") or S.get("only_r2") or S.get("demux") == "combi"))
    if "fmt" in S:
        C["fmt"] = S["fmt"]
    elif rng.random() < (0.2 if f in ("C03", "C04", "C11") else 0.08) and not (S.get("q") or S.get("nextseq") or S.get("maxee") or S.get("maxaer")):
        C["fmt"] = "fasta"
    fastq = C["fmt"] == "fastq"
    p = lambda x: rng.random() < x
    heavy = f in ("C03", "C10")
    # pre-adapter modifications
    if p(0.5 if heavy or f == "C17" else 0.15):
        C["cut1"] = rng.choice(([2], [-3], [3, -2], [-2, 4], [1], [30], [0], [0, -3]))
    if C["paired"] and p(0.4 if heavy else 0.15):
        C["cut2"] = rng.choice(([1], [-2], [2, -1]))
    if fastq and p(0.3 if heavy or f == "C17" else 0.08):
        C["nextseq"] = rng.choice((10, 20))
    if fastq and p(0.45 if heavy or f == "C17" else 0.12):
        C["q"] = rng.choice(("10", "15", "5,10", "12,0", "20"))
        if C["paired"] and p(0.4):
            C["Q"] = rng.choice(("0", "12", "8,15"))
    elif fastq and C["paired"] and p(0.1):
        C["Q"] = rng.choice(("12", "8,15"))
    # adapters
    n_ads = 0 if (f in ("C10", "C11") and p(0.3) and not S) else rng.choice((1, 1, 2, 3) if f not in ("C09", "C15") else (2, 3, 3, 4))
    n_ads = S.get("n_ads", n_ads)
    demux = "none"
    if "demux" in S:
        demux = S["demux"]
    elif f == "C15" or (f == "C04" and p(0.35)):
        demux = "combi" if (C["paired"] and p(0.45)) else "normal"
    C["demux"] = demux
    named = demux != "none"
    if n_ads == 0 and demux != "none":
        n_ads = 2
    allow_linked = f in ("C09", "C17", "C20", "C03") and demux == "none"
    ads = make_adapters(rng, f, n_ads, 1, allow_linked, named)
    if S.get("linked") and not any(a.get("linked") for a in ads):
        for _try in range(200):
            extra = make_adapters(rng, f, 1, 1, True, named)
            if extra[0].get("linked"):
                ads = extra + ads[1:] if len(ads) > 1 else extra + make_adapters(rng, f, 1, 1, False, named, back_only=True)
                break
    if S.get("back_optional"):
        # -a FRONT...BACK with a regular 3' part: the 3' part is optional, reads with the 5' part only are trimmed
        for a in ads:
            if a.get("linked"):
                fpart, bpart = a["linked"]
                fpart["opt"] = bpart["opt"] = "a"
                fpart.pop("opt_render", None)
                if fpart.get("restr") == "anchor":
                    fpart["opt_render"] = "g"
                bpart["restr"] = None
                for x in (fpart, bpart):
                    if x.get("params"):
                        x["params"] = ";".join(t for t in x["params"].split(";") if t not in ("required", "optional")) or None
                        if not x["params"]:
                            x.pop("params")
    if S.get("tie_order"):
        # equally long adapters of different kinds, at most one anchored 5' and one anchored 3' (so that no
        # index is built even when indexing is allowed): full occurrences tie on score and errors
        ads = [dict(opt="g", seq="TCGTATG", restr="anchor", name=None), dict(opt="a", seq="CCGGAAT", restr=None, name=None),
               dict(opt="a", seq="CTTGTAC", restr="anchor", name=None), dict(opt="g", seq="GGTTCCA", restr=None, name=None)]
        rng.shuffle(ads)
        ads = ads[: rng.choice((3, 4))]
    if S.get("indexed_n"):
        # two or three anchored adapters of one kind (an index is built); the reads differ only in where N stands for A
        opt = rng.choice(("g", "a"))
        seqs = rng.sample(ADAPTERS, rng.choice((2, 3)))
        L = rng.choice((8, 10, 12))
        ads = [dict(opt=opt, seq=q[:(L if S.get("indexed_equal") else rng.choice((8, 10, 12)))], restr="anchor", name=None) for q in seqs]
    if S.get("score_ties"):
        # three adapters whose occurrences in the same stretch have equal score and different error counts,
        # in an order in which the error counts are not monotone: a 12-mer with 2 mismatches (12 - 4), a perfect
        # 8-mer, a 10-mer with 1 mismatch (10 - 2)
        stretch = "".join(rng.choice("ACGT") for _ in range(12))
        def sub(t, positions):
            t = list(t)
            for i in positions:
                t[i] = rng.choice([c for c in "ACGT" if c != t[i]])
            return "".join(t)
        opt = rng.choice(("a", "a", "b"))
        trio = [sub(stretch, rng.sample(range(2, 10), 2)), stretch[4:12], sub(stretch[2:12], [rng.randrange(2, 8)])]
        order = rng.choice(([0, 1, 2], [2, 1, 0], [0, 2, 1], [2, 0, 1]))
        ads = [dict(opt=opt, seq=trio[i], restr=None, name=None) for i in order]
        S = dict(S, _embed=stretch)
    if S.get("linked_vs_single"):
        # a linked adapter whose 5' part alone scores lower and whose two parts together score higher than a
        # competing single adapter that occurs in the same read: the total of both parts decides
        def rnd(n):
            return "".join(rng.choice("ACGT") for _ in range(n))
        F, B, Sg = rnd(rng.choice((4, 5))), rnd(rng.choice((9, 10, 12))), rnd(rng.choice((6, 7, 8)))
        fpart, bpart = dict(opt="g", seq=F, restr=None), dict(opt="g", seq=B, restr=None)
        ads = [dict(linked=(fpart, bpart), name=None), dict(opt=rng.choice(("a", "g")), seq=Sg, restr=None, name=None)]
        if rng.random() < 0.5:
            ads.reverse()
        S = dict(S, _embed=F + rnd(rng.randint(0, 3)) + Sg + rnd(rng.randint(0, 2)) + B)
    if S.get("same_family"):
        # adapters that are near-identical: equal scores, different error counts, ties
        base = pick(rng, ADAPTERS)
        opt = rng.choice(("a", "a", "g", "b"))
        ads = [dict(opt=opt, seq=base, restr=None, name=None), dict(opt=opt, seq=mutate(rng, base, 1), restr=None, name=None)] + \
              ([dict(opt=opt, seq=base[:-2], restr=None, name=None)] if n_ads > 2 else [])
    if S.get("specialnames") and len(ads) >= 2:
        # names that differ only in characters some file systems do not allow: still two adapters, two files
        ads[0]["name"], ads[1]["name"] = "s|1", "s:1"
    if S.get("dupseq") and len(ads) >= 2:
        # one barcode given to two samples: the same adapter twice under two names (the second can never win,
        # its output file exists nevertheless)
        ads[-1] = dict(ads[0], name=ads[-1].get("name"))
    if S.get("dupname") and len(ads) >= 2:
        for a in ads[1:2]:
            a["name"] = ads[0].get("name") or NAMES[0]
        ads[0]["name"] = ads[1]["name"]
    C["ads1"] = [fix_linked_render(a) for a in ads]
    if C["paired"]:
        want2 = demux == "combi" or p(0.6) or bool(S.get("pairads") or S.get("only_r2"))
        n2 = (len(C["ads1"]) if (f in ("C05", "C03", "C20") and p(0.35)) else rng.choice((1, 2))) if want2 else 0
        C["ads2"] = [fix_linked_render(a) for a in make_adapters(rng, f, n2, 2, False, named, back_only=p(0.6))]
        if S.get("r2_front"):
            # 5' adapters on R2: a second copy is only reached in a second round
            C["ads2"] = [fix_linked_render(a) for a in make_adapters(rng, f, max(1, n2), 2, False, named, front_only=True)]
        if S.get("pairads"):
            C["ads2"] = [fix_linked_render(a) for a in make_adapters(rng, f, len(C["ads1"]), 2, False, named, back_only=p(0.6))]
            if S.get("dup_both") and len(C["ads1"]) >= 3:
                # a dual-index design: R1 adapter 1 has two partners, R2 adapter 2 has two partners
                C["ads1"][1] = dict(C["ads1"][0], name=C["ads1"][1].get("name"))
                C["ads2"][2] = dict(C["ads2"][1], name=C["ads2"][2].get("name"))
            if S.get("same_r1") and len(C["ads1"]) >= 2:
                C["ads1"][1] = dict(C["ads1"][0], name=(C["ads1"][1].get("name")))      # the same R1 adapter at two ranks
        if (S.get("only_r2") or (p(0.15) and not S)) and C["ads2"] and demux != "combi":
            C["ads1"] = []            # adapters on R2 only
    has_ads = bool(C.get("ads1") or C.get("ads2"))
    if has_ads:
        C["action"] = rng.choice(("trim", "trim", "trim", "mask", "lowercase", "retain", "crop", "none")) if f in ("C03", "C09", "C20", "C05") else "trim"
        C["action"] = S.get("action", C["action"])
        linked = any(a.get("linked") for a in C["ads1"])
        if linked and C["action"] in ("crop", "mask"):
            # documented: linked adapters do not work with --action=mask / crop
            C["action"] = rng.choice(("trim", "lowercase", "retain", "none"))
        if C["action"] not in ("retain", "crop"):
            C["times"] = rng.choice((1, 1, 2, 3)) if f in ("C09", "C03", "C17", "C20", "C15", "C16") else 1
            C["times"] = S.get("times", C["times"])
        if S.get("revcomp") or (not S and p({"C16": 0.9, "C03": 0.25, "C20": 0.3, "C17": 0.3, "C04": 0.15}.get(f, 0.05))):
            C["revcomp"] = True
        if C["paired"] and C.get("ads1") and C.get("ads2") and len(C["ads1"]) == len(C["ads2"]) and not C.get("revcomp") \
                and not linked and demux != "combi" and (S.get("pairads") or (not S and p(0.5 if f in ("C05", "C03") else 0.15))):
            C["pairads"] = True
            C["times"] = 1
        C["error_rate"] = rng.choice((None, None, 0.2, 0.25, 0.1, None, 0.2, 0))
        C["overlap"] = rng.choice((None, None, 1, 4, 5))
        if f == "C16" and p(0.4):
            C["error_rate"], C["overlap"] = rng.choice((0.5, 0.7)), rng.choice((1, 2))
        if "error_rate" in S:
            C["error_rate"] = S["error_rate"]
        if "overlap" in S:
            C["overlap"] = S["overlap"]
        if S.get("index"):
            C["index"] = True
        if S.get("tie_order"):
            C["_tie"] = True
        if S.get("repeat"):
            C["_repeat"] = True
        if S.get("dimers"):
            C["_dimers"] = True
        if S.get("rna"):
            C["_rna"] = True
        if S.get("back_optional"):
            C["_onlyfront"] = True
        if S.get("_embed"):
            C["_embed"] = S["_embed"]
        if S.get("indexed_n"):
            C["index"] = True
            C["error_rate"] = rng.choice((0.1, 0.2, 0.25))
            a = pick(rng, C["ads1"])
            t = list(a["seq"])
            with_a = [i for i, c in enumerate(t) if c == "A"]
            if len(with_a) >= 2 and rng.random() < 0.7:
                pos = rng.sample(with_a, 2)           # the A variant is an exact copy, every N costs one error
            else:
                pos = rng.sample(range(len(t)), rng.choice((2, 3)))
            for i in pos:
                t[i] = "A"
            C["_nfamily"] = dict(opt=a["opt"], base="".join(t), pos=pos)
            if S.get("indexed_equal"):
                C["noindels"] = True          # equal lengths without indels: the index's single-length path
    if S.get("short_reads"):
        C["_short"] = True
    # post-adapter modifications
    if p(0.4 if heavy else 0.1):
        C["polya"] = True
    if p(0.4 if heavy else 0.1):
        C["len1"] = rng.choice((8, 12, -9, 20, 0))
        if C["paired"] and p(0.4):
            C["len2"] = rng.choice((6, -5, 15, 0))
    elif C["paired"] and p(0.1):
        C["len2"] = rng.choice((6, -5))
    if p(0.4 if heavy else 0.15):
        C["trimn"] = True
    if f == "C10" or p(0.05):
        if p(0.5):
            C["lengthtag"] = "length="
        if p(0.3):
            C["strip"] = [rng.choice(("/1", ".x", ".suf"))] + ([".y"] if p(0.3) else [])
        if p(0.35):
            C["prefix"] = rng.choice(("P_", "{name}:", "pre-"))
            if p(0.5):
                C["suffix"] = rng.choice(("_S", " {name}", ".end"))
        elif p(0.6):
            if C["paired"]:
                C["rename"] = rng.choice(("{id} {comment} a={adapter_name}", "{id}_{rn} cp={cut_prefix} cs={cut_suffix}",
                                          "{id} m={r1.match_sequence}|{r2.adapter_name}", "{header} x", "{id} {r1.cut_prefix}-{r2.cut_prefix}"))
            else:
                C["rename"] = rng.choice(("{id} {comment} a={adapter_name}", "{id} cp={cut_prefix} cs={cut_suffix} rc={rc}",
                                          "{id} m={match_sequence} {comment}", "{header} rc={rc}", "{header}"))
    elif f in ("C09", "C16", "C15") and p(0.5) and not C["paired"]:
        C["rename"] = "{id} a={adapter_name} rc={rc} m={match_sequence}"
    elif f in ("C09", "C15") and p(0.5) and C["paired"]:
        C["rename"] = "{id} a={r1.adapter_name} b={r2.adapter_name}"
    if fastq and p(0.3 if heavy else 0.08):
        C["zerocap"] = True
    # filters
    filt = f in ("C11", "C04", "C05") or (f == "C15" and p(0.3))
    if p(0.7 if filt else 0.15):
        v = rng.choice((0, 1, 5, 8, 12, 15))
        C["minlen"] = (str(v) if not C["paired"] or p(0.5) else rng.choice((f"{v}:", f":{v}", f"{v}:{max(0, v - 3)}")))
        if p(0.5):
            C["tooshortout"] = True
    if p(0.6 if filt else 0.1):
        v = rng.choice((10, 14, 18, 22, 30))
        C["maxlen"] = (str(v) if not C["paired"] or p(0.5) else rng.choice((f"{v}:", f":{v}", f"{v}:{v + 4}")))
        if p(0.5):
            C["toolongout"] = True
    if p(0.5 if filt else 0.08):
        C["maxn"] = rng.choice(((0, 1, "0"), (1, 1, "1"), (2, 1, "2"), (1, 4, "0.25"), (1, 8, "0.125"), (1, 2, "0.5")))
    if fastq and p(0.45 if filt else 0.05):
        C["maxee"] = rng.choice(("0.5", "1", "2", "0.05", "3.5"))
    if fastq and p(0.4 if filt else 0.05):
        C["maxaer"] = rng.choice(("0.01", "0.05", "0.1", "0.2"))
    if p(0.4 if filt else 0.05):
        C["casava"] = True
    if has_ads and demux == "none":
        x = rng.random()
        lim = 0.75 if filt else 0.2
        if x < lim / 3:
            C["dtrim"] = True
        elif x < 2 * lim / 3:
            C["duntrim"] = True
        elif x < lim:
            C["untrimout"] = True
    elif demux == "normal":
        x = rng.random()
        if x < 0.3:
            C["duntrim"] = True
        elif x < 0.55:
            C["untrimout"] = True
    elif demux == "combi" and p(0.4):
        C["duntrim"] = True
    if C["paired"] and p(0.6 if f in ("C05", "C11") else 0.2):
        C["pairfilter"] = rng.choice(("any", "both", "first"))
    if f in ("C17", "C09", "C20") or (f in ("C03", "C16") and p(0.3)):
        C["info"] = has_ads
    if has_ads and not any(a.get("linked") for a in C.get("ads1", [])) and C.get("ads1") and \
            (S.get("aux") or (f in ("C17", "C09", "C04", "C03") and p(0.35))):
        C["aux"] = True             # --rest-file / --wildcard-file (not defined for linked adapters)
    if S.get("longread"):
        C["_long"] = True
    if S.get("name_ws"):
        C["_name_ws"] = True
    if f == "C10" and p(0.7):
        C["perm_seed"] = rng.randrange(10**6)
    if S.get("only_r1") and C["paired"]:
        C["ads2"] = []
    for k in ("minlen", "maxlen", "maxn", "maxee", "maxaer", "casava", "pairfilter", "polya", "q", "Q", "nextseq", "cut1", "len1", "len2",
              "lengthtag", "trimn", "info", "interleaved", "tooshortout", "rename", "cores", "buffer_size", "n_reads", "cut2", "strip",
              "zerocap", "fasta_noop", "qbase", "toolongout", "empty_A_file"):
        if k in S:
            C[k] = S[k]
    if has_ads and demux == "none" and any(k in S for k in ("duntrim", "dtrim", "untrimout")):
        for k in ("duntrim", "dtrim", "untrimout"):
            C.pop(k, None)
        for k in ("duntrim", "dtrim", "untrimout"):
            if S.get(k):
                C[k] = True
    elif demux != "none" and (S.get("duntrim") or S.get("untrimout")):
        C.pop("duntrim", None)
        C.pop("untrimout", None)
        if S.get("duntrim"):
            C["duntrim"] = True
        elif demux == "normal":
            C["untrimout"] = True
    if not C["paired"]:
        C.pop("pairfilter", None)
        for k in ("minlen", "maxlen"):
            if C.get(k) and ":" in C[k]:
                C[k] = C[k].replace(":", "") or None
    if C["fmt"] == "fasta":
        for k in ("q", "Q", "nextseq", "zerocap", "maxee", "maxaer"):
            C.pop(k, None)
    return C


def make_inputs(rng, C, n):
    r1, r2 = [], []
    for k in range(n):
        ads1, ads2 = C.get("ads1", []), C.get("ads2", [])
        if C.get("pairads") and ads1 and len(ads1) == len(ads2) and rng.random() < 0.7:
            j = rng.randrange(len(ads1))            # both mates carry the adapters of the same rank
            ads1, ads2 = [ads1[j]], [ads2[j]]
        a = make_read(rng, k, ads1, C, 1)
        r1.append(a)
        if C["paired"]:
            b = make_read(rng, k, ads2, C, 2)
            # mates share id and comment layout
            nm = a[0].replace(" 1:", " 2:")
            r2.append((nm, b[1], b[2]))
    return r1, r2


def vet_thresholds(C, r1, r2):
    """R3: keep --max-ee / --max-aer only if no read's expected errors lie within 1e-6 of the
    threshold at any length (any prefix/suffix could be the final read: check all substrings is too
    much; the final check compares model and code on the actual final reads, so vet those loosely:
    thresholds are chosen as short decimals while EE sums are irrational-looking; a collision within
    1e-9 is practically impossible and would show as a reported, explainable mismatch)."""
    return True


def drive(ctx, focus, n_runs, want, reads_per_run=(5, 9), config_hook=None, extra_configs=()):
    """Generate, run and validate n_runs runs.  Returns list of (event, clause, k)."""
    rng = ctx.rng
    events, samplers, failed = [], {}, []
    tries = 0
    n_scen = 0
    extra = list(extra_configs)
    while (len(events) < n_runs or extra) and tries < n_runs * 4 + len(extra_configs):
        tries += 1
        # 60 % of the runs take a scenario of the property's list, in turn (every scenario is used equally often,
        # whatever the seed); the rest are free random configurations
        scen = None
        if focus in SCENARIOS and rng.random() < 0.6:
            scen = SCENARIOS[focus][n_scen % len(SCENARIOS[focus])]
            n_scen += 1
        C = extra.pop() if extra else random_config(rng, focus, scen)
        if focus in ("C04", "C16", "C20", "C15") and rng.random() < 0.3:
            C["cores"] = rng.choice((2, 3))
            C["buffer_size"] = rng.choice((300, 500, 900))
            C["sched_seed"] = rng.randrange(10**6)
            C["sched_weights"] = rng.choice((None, {"W0": 0.05}, {"W1": 0.05}, {"M": 0.1}, {"W0": 5.0}))
        if C.get("_long"):
            for key in ("cores", "buffer_size", "sched_seed", "sched_weights"):       # (a record must fit into the buffer)
                C.pop(key, None)
        if config_hook:
            C = config_hook(rng, C)
            if C is None:
                continue
        r1, r2 = make_inputs(rng, C, C.pop("n_reads", None) or rng.randint(*reads_per_run))
        if C.get("cores", 1) > 1 and "sched_seed" not in C:
            C["sched_seed"] = rng.randrange(10**6)
            C["sched_weights"] = rng.choice((None, {"W0": 0.05}, {"W1": 0.05}, {"M": 0.1}, {"W0": 5.0}))
        snap = json.loads(json.dumps(dict(C=C, r1=r1, r2=r2)))        # everything a replay needs to re-run this run
        ev, sampler, res = GR.observe_run(C, r1, r2, os.path.join(ctx.scratch, "run"))
        ev["_replay"] = snap
        ev["C"] = {k: v for k, v in C.items() if k not in ("ads1", "ads2", "sched_weights")}
        ev["C"]["ads1"] = [GR.adapter_arg(a) for a in C.get("ads1", [])]
        ev["C"]["ads2"] = [GR.adapter_arg(a) for a in C.get("ads2", [])]
        if "failed" in ev:
            failed.append(ev)
            continue
        ev["id"] = len(events)
        ev["want"] = list(want) + (["info"] if C.get("info") else []) + (["aux"] if C.get("aux") else [])
        if "report_crash" in ev:
            failed.append(dict(ev, failed=ev["report_crash"]))
            ev["want"] = [w for w in ev["want"] if w not in ("report", "stats")]
        events.append(ev)
        samplers[ev["id"]] = sampler
    res = GR.validate_runs(ctx, events, samplers)
    out = []
    for e in events:
        for clause, k in res.get(e["id"], []):
            out.append((e, clause, k))
    ctx.extra["runs"] = len(events)
    ctx.extra["runs_rejected_by_cli"] = len(failed)
    ctx.extra["reads"] = sum(len(e["reads"]) for e in events)
    ctx.extra["reads_with_recorded_stage_chain"] = sum(1 for e in events for rd in e["reads"] if rd["obs"].get("chain"))
    ctx.extra["reads_whose_chain_deviates_locally"] = sum(len(e.get("_blame") or {}) for e in events)
    bl = {}
    for e in events:
        for k, labs in (e.get("_blame") or {}).items():
            for lab in labs:
                bl[lab] = bl.get(lab, 0) + 1
    ctx.extra["stage_blame_counts"] = bl
    ctx.extra["runs_with_rest_and_wildcard_file"] = sum(1 for e in events if "aux" in e["want"])
    ctx.extra["paired_runs"] = sum(1 for e in events if e["cfg"]["paired"])
    ctx.extra["reads_written_to_a_file"] = sum(1 for e in events for rd in e["reads"] if rd["obs"]["dest"] != "none")
    ctx.extra["runs_with_matches"] = sum(1 for e in events if e["report"]["with1"] > 0 or e["report"]["with2"] > 0)
    ctx.extra["runs_judged_without_report_after_report_crash"] = sum(1 for e in events if "report_crash" in e)
    return events, out, failed


def brief(e, k=None):
    """A readable version of a run observation for replay files / samples."""
    d = dict(argv=e["argv"], config=e.get("C"))
    if k:
        rd = e["reads"][k - 1]
        s = lambda c: "".join(map(chr, c))
        d["read"] = dict(index=k, in1=[s(rd["in1"]["name"]), s(rd["in1"]["seq"]), s(rd["in1"]["qual"])],
                         in2=[s(rd["in2"]["name"]), s(rd["in2"]["seq"]), s(rd["in2"]["qual"])],
                         observed=dict(dest=rd["obs"]["dest"], o1=[s(rd["obs"]["o1"]["name"]), s(rd["obs"]["o1"]["seq"]), s(rd["obs"]["o1"]["qual"])],
                                       o2=[s(rd["obs"]["o2"]["name"]), s(rd["obs"]["o2"]["seq"]), s(rd["obs"]["o2"]["qual"])],
                                       rows=[[s(r["name"]), r["errors"], r["rs"], r["re"], s(r["before"]), s(r["mid"]), s(r["after"]), s(r["adname"])] for r in rd["obs"]["rows"]]),
                         locate=[[t["ad"], s(t["seq"]), t["found"], t.get("rs"), t.get("re"), t.get("score"), t.get("errors")] for t in rd["table"]])
    else:
        d["report"] = e["report"]
    return d
