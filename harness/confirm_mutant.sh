#!/bin/bash
# usage: confirm_mutant.sh <worktree> <mutant dir>   -- development tool
# Confirms in the scratch worktree: patch applies, suite green (696 pass, 1 known failure), demo FAIL with, PASS without.
WT=$1; M=$(realpath $2)
cd $WT || exit 2
[ -f src/cutadapt/_version.py ] || cp /repo/src/cutadapt/_version.py src/cutadapt/
git checkout -q -- . 
rebuild() { for f in $(git diff --name-only HEAD~0 2>/dev/null; echo $PYX); do :; done; }
PYX=$(grep -E '^\+\+\+ b/.*\.(pyx|h)$' $M/patch.diff | sed 's#+++ b/##')
git apply $M/patch.diff || { echo "APPLY FAILED"; exit 2; }
build() { if [ -n "$PYX" ]; then (cd src && for m in _align _kmer_finder qualtrim info; do /venv/bin/cythonize -i -q cutadapt/$m.pyx >/dev/null 2>&1; done); fi; }
build
SUITE=$(PYTHONPATH=$WT/src /venv/bin/python -m pytest -q -p no:cacheprovider --timeout=900 tests 2>&1 | tail -1)
DEMO_WITH=$(cd $M && PYTHONPATH=$WT/src /venv/bin/python demo.py >/dev/null 2>&1; echo $?)
git checkout -q -- .
build
DEMO_WITHOUT=$(cd $M && PYTHONPATH=$WT/src /venv/bin/python demo.py >/dev/null 2>&1; echo $?)
echo "suite: $SUITE | demo with patch exit=$DEMO_WITH | without exit=$DEMO_WITHOUT"
case "$SUITE" in *"1 failed, 696 passed"*) ok=1;; *) ok=0;; esac
[ $ok = 1 ] && [ "$DEMO_WITH" = 1 ] && [ "$DEMO_WITHOUT" = 0 ] && echo CONFIRMED || echo NOT-CONFIRMED
