"""
Run the real command line in-process (cutadapt.cli.main) and collect every observable:
exit status, text report, error/warning messages, JSON report, all output files.
"""
import bz2
import gzip
import io
import json
import logging
import lzma
import os
import shutil
import sys


class _Capture(logging.Handler):
    def __init__(self):
        super().__init__(level=logging.DEBUG)
        self.records = []

    def emit(self, record):
        try:
            msg = record.getMessage()
        except Exception:  # pragma: no cover
            msg = str(record.msg)
        self.records.append((record.levelno, msg))


class Result:
    def __init__(self):
        self.exit = 0
        self.report = ""
        self.errors = []
        self.warnings = []
        self.json = None
        self.files = {}       # relative name -> bytes (decompressed)
        self.raw = {}         # relative name -> bytes as on disk
        self.exception = None
        self.stdout = b""
        self.stats = None


def decompress(name, data):
    if name.endswith(".gz"):
        return gzip.decompress(data) if data else b""
    if name.endswith(".bz2"):
        return bz2.decompress(data) if data else b""
    if name.endswith(".xz"):
        return lzma.decompress(data) if data else b""
    if name.endswith(".zst"):
        import zstandard
        return zstandard.ZstdDecompressor().decompressobj().decompress(data) if data else b""
    return data


def parse_records(data):
    """Independent FASTA/FASTQ parser.  Returns (format, [(name, seq, qual or None)])."""
    text = data.decode("ascii", errors="replace")
    if not text:
        return "empty", []
    lines = text.split("\n")
    if lines and lines[-1] == "":
        lines.pop()
    recs = []
    if text[0] == "@":
        if len(lines) % 4:
            raise ValueError("FASTQ output with incomplete record")
        for i in range(0, len(lines), 4):
            if not lines[i].startswith("@") or not lines[i + 2].startswith("+"):
                raise ValueError("malformed FASTQ output")
            recs.append((lines[i][1:], lines[i + 1], lines[i + 3]))
        return "fastq", recs
    if text[0] == ">":
        name, seq = None, []
        for ln in lines:
            if ln.startswith(">"):
                if name is not None:
                    recs.append((name, "".join(seq), None))
                name, seq = ln[1:], []
            else:
                seq.append(ln)
        if name is not None:
            recs.append((name, "".join(seq), None))
        return "fasta", recs
    raise ValueError(f"unrecognised output format: {text[:20]!r}")


def fastq_bytes(recs):
    out = []
    for name, seq, qual in recs:
        if qual is None:
            out.append(f">{name}\n{seq}\n")
        else:
            out.append(f"@{name}\n{seq}\n+\n{qual}\n")
    return "".join(out).encode("ascii")


def reset_adapter_names():
    """Restart the numbering of unnamed adapters (a convenience for readable observations: no clause depends on it;
    a tree that numbers differently is left alone)."""
    import cutadapt.adapters as A
    try:
        A._generate_adapter_name.__defaults__[0][0] = 1
    except Exception:  # noqa
        try:
            A.reset_adapter_names()
        except Exception:  # noqa
            pass


def run_cli(argv, inputs, workdir, keep=False, want_stdout=False):
    """
    argv: list of str; paths are relative to workdir (we chdir into it).
    inputs: {filename: bytes}
    """
    import cutadapt.cli as cli
    shutil.rmtree(workdir, ignore_errors=True)
    os.makedirs(workdir)
    for name, data in inputs.items():
        with open(os.path.join(workdir, name), "wb") as f:
            f.write(data)
    before = set(os.listdir(workdir))
    res = Result()
    root = logging.getLogger()
    old_handlers, old_level = root.handlers[:], root.level
    cap = _Capture()
    root.handlers = [cap]
    root.setLevel(logging.INFO)
    cwd = os.getcwd()
    old_stdout, old_stdin = sys.stdout, sys.stdin
    class _NoClose(io.BytesIO):
        def close(self):
            pass
    buf = _NoClose()
    wrapper = io.TextIOWrapper(buf, encoding="ascii", write_through=True)
    sys.stdout = wrapper
    sys.stdin = io.StringIO("")          # no fileno(): the reader process must not touch real stdin
    reset_adapter_names()
    os.chdir(workdir)
    try:
        try:
            res.stats = cli.main(list(argv))
        except SystemExit as e:
            res.exit = e.code if isinstance(e.code, int) else (0 if e.code is None else 1)
        except BaseException as e:  # noqa
            res.exit = -1
            res.exception = e
            # where it was raised: the deepest frame inside the cutadapt package (used to attribute a crash)
            try:
                import traceback as _tb
                frames = [f for f in _tb.extract_tb(e.__traceback__) if "/cutadapt/" in f.filename]
                res.crash_site = (os.path.basename(frames[-1].filename) + ":" + frames[-1].name) if frames else ""
            except Exception:  # noqa
                res.crash_site = ""
    finally:
        os.chdir(cwd)
        try:
            sys.stdout.flush()
        except Exception:
            pass
        sys.stdout, sys.stdin = old_stdout, old_stdin
        root.handlers = old_handlers
        root.setLevel(old_level)
    res.stdout = buf.getvalue()
    for lvl, msg in cap.records:
        if lvl == 25:
            res.report = msg
        elif lvl >= logging.ERROR:
            res.errors.append(msg)
        elif lvl >= logging.WARNING:
            res.warnings.append(msg)
    for name in sorted(os.listdir(workdir)):
        if name in before:
            continue
        with open(os.path.join(workdir, name), "rb") as f:
            data = f.read()
        res.raw[name] = data
        if name.endswith(".json"):
            try:
                res.json = json.loads(data)
            except Exception:
                res.json = None
        else:
            try:
                res.files[name] = decompress(name, data)
            except Exception as e:
                res.files[name] = None
    if not keep:
        shutil.rmtree(workdir, ignore_errors=True)
    return res


def codes(s):
    return [ord(c) for c in s]
