"""Shared driver of the match-event properties C01, C02, C07."""
import json

from harness import gen_match as G


def gen(ctx, want, n_small, n_rand, types=None):
    ev = G.small_scope(ctx.rng, n_small, want) + G.random_events(ctx.rng, n_rand, want, types=types)
    for i, e in enumerate(ev):
        e["id"] = i
    return ev


def stats(ctx, ev):
    found = sum(1 for e in ev if e["found"])
    ctx.extra["events"] = len(ev)
    ctx.extra["events_with_match"] = found
    ctx.extra["events_without_match"] = len(ev) - found
    ctx.extra["events_prefilter_differs"] = sum(1 for e in ev if (e["found"], e["res"]) != (e["found_nf"], e["res_nf"]))
    by = {}
    for e in ev:
        by[e["typ"]] = by.get(e["typ"], 0) + 1
    ctx.extra["events_by_type"] = by
    distinct = len({json.dumps([e[k] for k in ("typ", "a", "r", "num", "den", "ovl", "aw", "rw", "indels")]) for e in ev})
    ctx.extra["distinct_events"] = distinct
    for e in ev[:: max(1, len(ev) // 5)][:5]:
        ctx.sample({k: e[k] for k in e if k != "want"})


def readable(e):
    d = dict(e)
    d["adapter"] = "".join(map(chr, e["a"]))
    d["read"] = "".join(map(chr, e["r"]))
    return d
