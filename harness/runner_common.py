"""Shared machinery of C06 / C12 (and the multi-core parts of C15, C19): running the real
command line serially, under the virtual scheduler, and as real processes; turning hook
event logs into trace records for Trace_Runner."""
import io
import json
import os
import re
import subprocess
import sys
import time

from harness import vmp, tlc
from harness.cli_run import run_cli


def norm_event(e):
    cur = e.get("cur") or []
    pend = e.get("pending") or []
    return dict(role=e["role"], ev=e["ev"], chunk=e.get("chunk", -1), worker=e.get("worker", -1),
                ready=list(e.get("ready", [])), cur0=(cur[0] if cur else -1), pend0=(list(pend[0]) if pend else []))


def count_chunks(paths_data, buffer_size):
    """Number of chunks the reader will produce for well-formed input (dnaio trusted)."""
    import dnaio
    if len(paths_data) == 1:
        return sum(1 for _ in dnaio.read_chunks(io.BytesIO(paths_data[0]), buffer_size))
    return sum(1 for _ in dnaio.read_paired_chunks(io.BytesIO(paths_data[0]), io.BytesIO(paths_data[1]), buffer_size))


def infer_nc(events, exit_status):
    """Number of chunks of the input as far as the log tells: exactly the chunks sent once the reader has
    started to send stop tokens, otherwise at least one more than were sent."""
    sends = [e for e in events if e["ev"] == "r_send"]
    if exit_status == 0 or any(e["ev"] == "r_pill" for e in events):
        return len(sends)
    return len(sends) + 1


def trace_record(tid, log, nw, nc, exit_status, kinds):
    return dict(id=tid, nw=nw, nc=nc, exit=exit_status, kinds=list(kinds), events=[norm_event(e) for e in log])


def run_virtual(argv, inputs, workdir, policy):
    def fn():
        return run_cli(argv, inputs, workdir)
    res, sched = vmp.run_virtual(fn, policy)
    return res, sched


RE_ACC = re.compile(r'<<"ACC", (\d+)>>')
RE_REJ = re.compile(r'<<"REJ", (\d+), (\d+), "([^"]*)">>')


def validate_traces(ctx, records, tag="runner", shards=8):
    """Returns {id: None if accepted else (event index, event name)}.  Adds states to ctx."""
    if not records:
        return {}
    shards = max(1, min(shards, (len(records) + 24) // 25))
    parts = [records[k::shards] for k in range(shards)]
    out = {}
    from concurrent.futures import ThreadPoolExecutor

    def run(k):
        part = parts[k]
        path = os.path.join(ctx.scratch, f"{tag}-{k}.ndjson")
        with open(path, "w") as f:
            for r in part:
                f.write(json.dumps(r, separators=(",", ":")) + "\n")
        r = tlc.model_check("Trace_Runner", "Trace_Runner.cfg", ctx.scratch, workers=1, env={"TRACE_FILE": path},
                            timeout=1500, xmx="2g")
        if r["violated"]:
            raise tlc.TLCFailure(f"Trace_Runner invariant {r['violated']} violated:\n{r['out'][-2500:]}")
        acc = {int(x) for x in RE_ACC.findall(r["nout"])}
        rej = {}
        for tid, idx, name in RE_REJ.findall(r["nout"]):
            tid, idx = int(tid), int(idx)
            if tid not in rej or idx > rej[tid][0]:
                rej[tid] = (idx, name)
        res = {}
        for rec in part:
            if rec["id"] in acc:
                res[rec["id"]] = None
            elif rec["id"] in rej:
                res[rec["id"]] = rej[rec["id"]]
            else:
                raise tlc.TLCFailure(f"Trace_Runner gave no verdict for trace {rec['id']}:\n{r['out'][-2500:]}")
        os.unlink(path)
        return res, r["states"], r["transitions"]

    with ThreadPoolExecutor(shards) as ex:
        for res, st, tr in ex.map(run, range(shards)):
            out.update(res)
            ctx.states += st
            ctx.transitions += tr
    ctx.traces += len(records)
    return out


def real_run(argv, inputs, workdir, trace_dir, timeout=60):
    """Run the command line as real processes (python -m cutadapt) with hooks on.
    Returns dict(exit, stderr, timed_out, files, logs)."""
    from harness import build
    import shutil
    shutil.rmtree(workdir, ignore_errors=True)
    os.makedirs(workdir)
    shutil.rmtree(trace_dir, ignore_errors=True)
    os.makedirs(trace_dir)
    for name, data in inputs.items():
        with open(os.path.join(workdir, name), "wb") as f:
            f.write(data)
    before = set(os.listdir(workdir))
    env = dict(os.environ)
    env["PYTHONPATH"] = build.build()
    env["CUTADAPT_VERIF_TRACE"] = trace_dir
    t0 = time.time()
    p = subprocess.Popen([sys.executable, "-m", "cutadapt"] + list(argv), cwd=workdir, env=env,
                         stdin=subprocess.DEVNULL, stdout=subprocess.PIPE, stderr=subprocess.PIPE,
                         start_new_session=True)
    try:
        so, se = p.communicate(timeout=timeout)
        timed_out = False
    except subprocess.TimeoutExpired:
        import signal
        os.killpg(p.pid, signal.SIGKILL)
        so, se = p.communicate()
        timed_out = True
    files = {}
    for name in sorted(os.listdir(workdir)):
        if name not in before:
            with open(os.path.join(workdir, name), "rb") as f:
                files[name] = f.read()
    logs = {}
    for name in sorted(os.listdir(trace_dir)):
        role = name.split("-")[0]
        with open(os.path.join(trace_dir, name)) as f:
            logs.setdefault(role, []).extend(json.loads(ln) for ln in f if ln.strip())
    shutil.rmtree(workdir, ignore_errors=True)
    shutil.rmtree(trace_dir, ignore_errors=True)
    return dict(exit=p.returncode, stderr=se.decode(errors="replace"), stdout=so, timed_out=timed_out,
                files=files, logs=logs, wall=time.time() - t0)


def validate_mp_run(ctx, logs, nw, nc, kinds, tag="mp"):
    """Per-process hook logs of one real multi-process run -> is there an interleaving that is a behaviour
    of Runner?  Returns (accepted: bool, detail)."""
    roles = sorted(logs)
    rec = dict(nw=nw, nc=nc, kinds=list(kinds), roles=roles,
               logs=[[norm_event(e) for e in sorted(logs[r], key=lambda x: (x.get("pid", 0), x["seq"]))] for r in roles])
    path = os.path.join(ctx.scratch, f"{tag}-{time.time_ns()}.json")
    with open(path, "w") as f:
        json.dump(rec, f)
    r = tlc.model_check("Trace_RunnerMP", "Trace_RunnerMP.cfg", ctx.scratch, workers=4, env={"TRACE_FILE": path},
                        timeout=900, xmx="3g")
    os.unlink(path)
    ctx.states += r["states"]
    ctx.transitions += r["transitions"]
    ctx.traces += 1
    if r["violated"] == "NotAllConsumed":
        return True, dict(states=r["states"])
    if r["violated"]:
        raise tlc.TLCFailure(f"Trace_RunnerMP: invariant {r['violated']} violated:\n{r['out'][-2000:]}")
    total = sum(len(x) for x in rec["logs"])
    return False, dict(states=r["states"], events=total, per_role={ro: len(l) for ro, l in zip(roles, rec["logs"])})


# ---------------------------------------------------------------- spec -> code: replaying TLC behaviours
ACTION_EVENT = {
    "RFormat": ("R", "r_fmt"), "RFormatFail": ("R", "r_fmt_fail"), "RFail": ("R", "r_fail"), "RSend": ("R", "r_send"),
    "RPill": ("R", "r_pill"), "RDone": ("R", "r_done"), "WAsk": ("W", "w_ask"), "WRes": ("W", "w_res"), "WExc": ("W", "w_exc"),
    "WStats": ("W", "w_stats"), "MFormat": ("M", "m_fmt"), "MExc": ("M", "m_exc"), "MStart": ("M", "m_start"),
    "MWait": ("M", "m_wait"), "MRes": ("M", "m_res"), "MStats": ("M", "m_stats"), "MFinish": ("M", "m_done"),
}
RE_LAST = re.compile(r'/\\ last = <<(.*?)>>\s*$', re.M)


def simulate_behaviours(ctx, cfg, num, depth=80, seed=1, with_fault=False):
    """TLC -simulate on MC_Runner: returns a list of behaviours, each a list of action labels
    [name, arg, ...] taken from the history variable `last` of every state.  with_fault: a list of
    (behaviour, fault) where fault = dict(kind, at) is the fault TLC chose in the initial state."""
    d = os.path.join(ctx.scratch, f"sim-{seed}")
    os.makedirs(d, exist_ok=True)
    cmd = ["java", "-XX:+UseSerialGC", "-Xss64m", "-XX:-UsePerfData", "-cp", tlc.JARS, "tlc2.TLC", "-simulate",
           f"file={d}/tr,num={num}", "-depth", str(depth), "-seed", str(seed), "-workers", "1", "-metadir", os.path.join(d, "meta"),
           "-noGenerateSpecTE", "-config", cfg, "MC_Runner.tla"]
    r = subprocess.run(cmd, cwd=tlc.SPEC, stdout=subprocess.PIPE, stderr=subprocess.STDOUT, text=True, timeout=600)
    m = re.search(r"The number of states generated: (\d+)", r.stdout)
    if not m:
        raise tlc.TLCFailure("TLC simulation failed:\n" + r.stdout[-2000:])
    ctx.states += int(m.group(1))
    ctx.transitions += int(m.group(1))
    out = []
    for name in sorted(os.listdir(d)):
        if not name.startswith("tr_"):
            continue
        text = open(os.path.join(d, name)).read()
        labels = []
        for lab in RE_LAST.findall(text):
            toks = re.findall(r'"([A-Za-z]+)"|<<([\d, ]*)>>|(-?\d+)', lab)
            item = []
            for a, b, c in toks:
                if a:
                    item.append(a)
                elif c:
                    item.append(int(c))
                else:
                    item.append([int(x) for x in b.split(",") if x.strip()])
            labels.append(item)
        # drop the initial label and the stuttering tail
        beh = [lab for lab in labels[1:]]
        while len(beh) >= 2 and beh[-1] == beh[-2] and beh[-1][0] in ("MFinish", "MExc"):
            beh.pop()
        if with_fault:
            fm = re.search(r'fault = \[([^\]]*)\]', text)
            kind = re.search(r'kind \|-> "([a-z]+)"', fm.group(1)).group(1)
            at = int(re.search(r'at \|-> (\d+)', fm.group(1)).group(1))
            out.append((beh, dict(kind=kind, at=at)))
        else:
            out.append(beh)
    import shutil
    shutil.rmtree(d, ignore_errors=True)
    return out


def chunk_lengths(data, buffer_size):
    """byte lengths of the chunks the reader cuts a single-end input into (dnaio trusted, as in count_chunks)"""
    import dnaio
    return [len(c) for c in dnaio.read_chunks(io.BytesIO(data), buffer_size)]


def script_of(behaviour):
    steps, readies = [], []
    for lab in behaviour:
        role, ev = ACTION_EVENT[lab[0]]
        if role == "W":
            role = f"W{lab[1]}"
        steps.append((role, {ev}))
        if lab[0] == "MWait":
            readies.append(list(lab[1]))
    return steps, readies


def event_matches(lab, e):
    """the hook event carries the same arguments as the TLC action label"""
    n = lab[0]
    if n == "RSend":
        return e.get("chunk") == lab[1] and e.get("worker") == lab[2]
    if n == "RPill":
        return e.get("worker") == lab[1]
    if n in ("WAsk", "WExc", "WStats"):
        return e.get("worker") == lab[1]
    if n == "WRes":
        return e.get("worker") == lab[1] and e.get("chunk") == lab[2]
    if n == "MWait":
        return list(e.get("ready", [])) == list(lab[1])
    if n == "MRes":
        return e.get("worker") == lab[1] and e.get("chunk") == lab[2]
    if n == "MStats":
        return e.get("worker") == lab[1]
    return True
