"""Shared machinery of C06 / C12 (and the multi-core parts of C15, C19): running the real
command line serially, under the virtual scheduler, and as real processes; turning hook
event logs into trace records for Trace_Runner."""
import io
import json
import os
import re
import subprocess
import sys
import time

from harness import vmp, tlc
from harness.cli_run import run_cli


def norm_event(e):
    cur = e.get("cur") or []
    pend = e.get("pending") or []
    return dict(role=e["role"], ev=e["ev"], chunk=e.get("chunk", -1), worker=e.get("worker", -1),
                ready=list(e.get("ready", [])), cur0=(cur[0] if cur else -1), pend0=(list(pend[0]) if pend else []))


def count_chunks(paths_data, buffer_size):
    """Number of chunks the reader will produce for well-formed input (dnaio trusted)."""
    import dnaio
    if len(paths_data) == 1:
        return sum(1 for _ in dnaio.read_chunks(io.BytesIO(paths_data[0]), buffer_size))
    return sum(1 for _ in dnaio.read_paired_chunks(io.BytesIO(paths_data[0]), io.BytesIO(paths_data[1]), buffer_size))


def trace_record(tid, log, nw, nc, exit_status, kinds):
    return dict(id=tid, nw=nw, nc=nc, exit=exit_status, kinds=list(kinds), events=[norm_event(e) for e in log])


def run_virtual(argv, inputs, workdir, policy):
    def fn():
        return run_cli(argv, inputs, workdir)
    res, sched = vmp.run_virtual(fn, policy)
    return res, sched


RE_ACC = re.compile(r'<<"ACC", (\d+)>>')
RE_REJ = re.compile(r'<<"REJ", (\d+), (\d+), "([^"]*)">>')


def validate_traces(ctx, records, tag="runner", shards=8):
    """Returns {id: None if accepted else (event index, event name)}.  Adds states to ctx."""
    if not records:
        return {}
    shards = max(1, min(shards, (len(records) + 24) // 25))
    parts = [records[k::shards] for k in range(shards)]
    out = {}
    from concurrent.futures import ThreadPoolExecutor

    def run(k):
        part = parts[k]
        path = os.path.join(ctx.scratch, f"{tag}-{k}.ndjson")
        with open(path, "w") as f:
            for r in part:
                f.write(json.dumps(r, separators=(",", ":")) + "\n")
        r = tlc.model_check("Trace_Runner", "Trace_Runner.cfg", ctx.scratch, workers=1, env={"TRACE_FILE": path},
                            timeout=1500, xmx="2g")
        if r["violated"]:
            raise tlc.TLCFailure(f"Trace_Runner invariant {r['violated']} violated:\n{r['out'][-2500:]}")
        acc = {int(x) for x in RE_ACC.findall(r["nout"])}
        rej = {}
        for tid, idx, name in RE_REJ.findall(r["nout"]):
            tid, idx = int(tid), int(idx)
            if tid not in rej or idx > rej[tid][0]:
                rej[tid] = (idx, name)
        res = {}
        for rec in part:
            if rec["id"] in acc:
                res[rec["id"]] = None
            elif rec["id"] in rej:
                res[rec["id"]] = rej[rec["id"]]
            else:
                raise tlc.TLCFailure(f"Trace_Runner gave no verdict for trace {rec['id']}:\n{r['out'][-2500:]}")
        os.unlink(path)
        return res, r["states"], r["transitions"]

    with ThreadPoolExecutor(shards) as ex:
        for res, st, tr in ex.map(run, range(shards)):
            out.update(res)
            ctx.states += st
            ctx.transitions += tr
    ctx.traces += len(records)
    return out


def real_run(argv, inputs, workdir, trace_dir, timeout=60):
    """Run the command line as real processes (python -m cutadapt) with hooks on.
    Returns dict(exit, stderr, timed_out, files, logs)."""
    from harness import build
    import shutil
    shutil.rmtree(workdir, ignore_errors=True)
    os.makedirs(workdir)
    shutil.rmtree(trace_dir, ignore_errors=True)
    os.makedirs(trace_dir)
    for name, data in inputs.items():
        with open(os.path.join(workdir, name), "wb") as f:
            f.write(data)
    before = set(os.listdir(workdir))
    env = dict(os.environ)
    env["PYTHONPATH"] = build.build()
    env["CUTADAPT_VERIF_TRACE"] = trace_dir
    t0 = time.time()
    p = subprocess.Popen([sys.executable, "-m", "cutadapt"] + list(argv), cwd=workdir, env=env,
                         stdin=subprocess.DEVNULL, stdout=subprocess.PIPE, stderr=subprocess.PIPE,
                         start_new_session=True)
    try:
        so, se = p.communicate(timeout=timeout)
        timed_out = False
    except subprocess.TimeoutExpired:
        import signal
        os.killpg(p.pid, signal.SIGKILL)
        so, se = p.communicate()
        timed_out = True
    files = {}
    for name in sorted(os.listdir(workdir)):
        if name not in before:
            with open(os.path.join(workdir, name), "rb") as f:
                files[name] = f.read()
    logs = {}
    for name in sorted(os.listdir(trace_dir)):
        role = name.split("-")[0]
        with open(os.path.join(trace_dir, name)) as f:
            logs.setdefault(role, []).extend(json.loads(ln) for ln in f if ln.strip())
    shutil.rmtree(workdir, ignore_errors=True)
    shutil.rmtree(trace_dir, ignore_errors=True)
    return dict(exit=p.returncode, stderr=se.decode(errors="replace"), stdout=so, timed_out=timed_out,
                files=files, logs=logs, wall=time.time() - t0)
