"""
Common check context: tiers, seed, scratch, TLC bookkeeping, evidence, known findings,
VIOLATION / KNOWN-FINDING protocol.
"""
import json
import os
import random
import shutil
import sys
import time

from . import tlc

VERIF = os.path.dirname(os.path.dirname(os.path.abspath(__file__)))
KNOWN = os.path.join(VERIF, "known_findings.json")


def load_known():
    if not os.path.exists(KNOWN):
        return []
    with open(KNOWN) as f:
        return json.load(f).get("findings", [])


class Ctx:
    def __init__(self, pid, tier, seed, replay=None):
        self.pid = pid
        self.tier = tier
        self.seed = seed
        self.replay = replay
        self.quick = tier == "quick"
        self.t0 = time.time()
        self.rng = random.Random(f"{pid}-{seed}")
        self.scratch = os.path.join(VERIF, ".scratch", f"{pid}-{os.getpid()}")
        shutil.rmtree(self.scratch, ignore_errors=True)
        os.makedirs(self.scratch)
        self.states = 0
        self.transitions = 0
        self.traces = 0
        self.mc_runs = []
        self.samples = []
        self.extra = {}
        self.assumptions = []
        self.violations = []      # dicts: clause, signature, obs, case
        self.candidates = []      # model-level counterexamples (R1: never an alarm by themselves)
        self.known = [k for k in load_known() if k.get("property") == pid and k.get("status") == "known"]

    # ---- TLC -------------------------------------------------------------
    def mc(self, spec, cfg, allow_violation=False, **kw):
        r = tlc.model_check(spec, cfg, self.scratch, **kw)
        self.states += r["states"]
        self.transitions += r["transitions"]
        rec = {k: r[k] for k in ("spec", "cfg", "states", "transitions", "violated", "wall_s")}
        self.mc_runs.append(rec)
        if r["violated"] and not allow_violation:
            # A violated invariant of a *design model* is a candidate to be replayed into the
            # code (rule R1), or a broken model: both are machinery matters, not verdicts.
            raise tlc.TLCFailure(f"model {spec}/{cfg}: {r['violated']} violated\n{r['out'][-3000:]}")
        return r

    def validate(self, spec, cfg, events, tag="t", shards=8, env=None, timeout=1500):
        """events: list of dicts with unique int 'id'.  Returns {id: [clauses]}."""
        viols, n = tlc.trace_check(spec, cfg, events, self.scratch, shards=shards, tag=tag, env=env,
                                   timeout=timeout)
        self.traces += len(events)
        self.states += n
        self.transitions += max(0, n - 1)
        out = {}
        for i, c in viols:
            out.setdefault(i, []).append(c)
        return out

    # ---- verdicts -----------------------------------------------------------
    def violation(self, clause, signature, obs, case=None):
        self.violations.append(dict(clause=clause, signature=signature, obs=obs, case=case))

    def sample(self, s, limit=6):
        if len(self.samples) < limit:
            self.samples.append(s)

    def finish(self, level="model_checking", rule=None, evaluations=None, distinct=None):
        wall = time.time() - self.t0
        known_sigs = {}
        for k in self.known:
            for s in k.get("signatures", []):
                known_sigs[s] = k
        new, known_hit = [], {}
        for v in self.violations:
            if v["signature"] in known_sigs:
                known_hit.setdefault(v["signature"], []).append(v)
            else:
                new.append(v)
        # a run against another source tree (harness/mutant_run.sh) is a development run: it must not touch
        # the evidence or the replays of the tree the MANIFEST commands talk about
        dev = "VERIF_REPO" in os.environ
        rdir = os.path.join(VERIF, ".scratch", "dev-replays", self.pid) if dev else os.path.join(VERIF, "replays", self.pid)
        lines = []
        if new:
            os.makedirs(rdir, exist_ok=True)
            seen = set()
            for v in new:
                if v["signature"] in seen and len(seen) >= 1 and sum(1 for _ in seen) > 20:
                    continue
                first = v["signature"] not in seen
                seen.add(v["signature"])
                if not first:
                    continue
                if self.replay:
                    # replaying: the violation was reproduced from the given file, no new file is written
                    if not lines:
                        lines.append(f"VIOLATION property={self.pid} replay={os.path.abspath(self.replay)}")
                    print(f"  clause={v['clause']} signature={v['signature']}")
                    continue
                n = len([f for f in os.listdir(rdir)]) if os.path.isdir(rdir) else 0
                path = os.path.join(rdir, f"{int(time.time())}-{n}.json")
                with open(path, "w") as f:
                    json.dump(dict(property=self.pid, clause=v["clause"], signature=v["signature"],
                                   case=v["case"], observation=v["obs"]), f, indent=1)
                lines.append(f"VIOLATION property={self.pid} replay={path}")
                print(f"  clause={v['clause']} signature={v['signature']}")
        for sig, vs in known_hit.items():
            k = known_sigs[sig]
            print(f"KNOWN-FINDING: property={self.pid} {k.get('what', sig)} [{sig}] ({len(vs)} observation(s) this run)")
        cov = dict(
            states=self.states,
            transitions=self.transitions,
            traces_validated_against_impl=self.traces,
            samples=self.samples or ["(no sample recorded)"],
            model_checking_runs=self.mc_runs,
            violations_new=len(new),
            violations_known=sum(len(v) for v in known_hit.values()),
            known_signatures_hit=sorted(known_hit),
            model_candidates=self.candidates[:10],
        )
        if evaluations is not None:
            cov["evaluations"] = evaluations
        if distinct is not None:
            cov["distinct_nontrivial"] = distinct
        if rule:
            cov["rule"] = rule
        cov.update(self.extra)
        ev = dict(property_id=self.pid, tier=self.tier, seed=self.seed, level=level, coverage=cov,
                  assumptions=self.assumptions, wall_s=round(wall, 2), violations=len(new))
        evdir = os.path.join(VERIF, ".scratch", "dev-evidence") if dev else \
            os.path.join(VERIF, "conformance" if self.pid.startswith("X_") else "evidence")     # X_*: beyond the listed properties
        os.makedirs(evdir, exist_ok=True)
        if not self.replay:
            with open(os.path.join(evdir, f"{self.pid}.json"), "w") as f:
                json.dump(ev, f, indent=1, default=str)
        shutil.rmtree(self.scratch, ignore_errors=True)
        for ln in lines:
            print(ln)
        print(f"[{self.pid}] tier={self.tier} seed={self.seed} states={self.states} traces={self.traces} "
              f"new_violations={len(new)} known={sum(len(v) for v in known_hit.values())} wall={wall:.1f}s")
        return 1 if new else 0
