"""Recording of the intermediate reads of a one-core run: the read (pair) after every modifier of the pipeline.

The recorder replaces each entry of pipeline._modifiers by a proxy that calls the real modifier and notes its
output.  Nothing here is needed for a verdict: if a tree organises its pipeline differently, no chain is recorded
and the checks behave as without it (see family_check: blame filter)."""
import re

from harness.cli_run import codes

LABELS = {
    "UnconditionalCutter": "cut", "NextseqQualityTrimmer": "nextseq", "QualityTrimmer": "qtrim",
    "AdapterCutter": "adapter", "ReverseComplementer": "adapter", "PairedAdapterCutter": "adapter",
    "PairedReverseComplementer": "adapter", "PolyATrimmer": "polya", "Shortener": "shorten", "NEndTrimmer": "trimn",
    "ZeroCapper": "zerocap", "LengthTagModifier": "name", "SuffixRemover": "name", "PrefixSuffixAdder": "name",
    "Renamer": "name", "PairedEndRenamer": "name",
}
IDRE = re.compile(r"rd(\d+)x")


def label_of(m):
    if m is None:
        return "", 0
    lab = LABELS.get(type(m).__name__, "unknown")
    arg = 0
    if lab == "cut":
        arg = getattr(m, "length", None)
        if not isinstance(arg, int):
            lab, arg = "unknown", 0
    return lab, arg


def project_match(m):
    """[adapter name codes, front rs, front re, back rs, back re] (-1 where that part did not match)"""
    cls = type(m).__name__
    name = codes(str(m.adapter.name))
    if cls == "LinkedMatch":
        f, b = m.front_match, m.back_match
        return [name, f.rstart if f else -1, f.rstop if f else -1, b.rstart if b else -1, b.rstop if b else -1]
    if cls == "RemoveBeforeMatch":
        return [name, m.rstart, m.rstop, -1, -1]
    if cls == "RemoveAfterMatch":
        return [name, -1, -1, m.rstart, m.rstop]
    raise ValueError(cls)


class Recorder:
    def __init__(self):
        self.chains = {}          # read index -> list of stage records
        self.ok = True

    def note(self, k, rec):
        self.chains.setdefault(k, []).append(rec)

    def rec_of(self, l1, a1, l2, a2, r1, r2, info1, info2):
        rec = dict(l1=l1, a1=a1, l2=l2, a2=a2,
                   s1=codes(r1.sequence), q1=codes(r1.qualities or ""),
                   s2=codes(r2.sequence) if r2 is not None else [], q2=codes(r2.qualities or "") if r2 is not None else [],
                   isrc=-1, hasm=False, m1=[], m2=[])
        if "adapter" in (l1, l2):
            try:
                rec["isrc"] = {None: -1, True: 1, False: 0}[info1.is_rc]
                rec["m1"] = [project_match(m) for m in info1.matches]
                rec["m2"] = [project_match(m) for m in info2.matches] if info2 is not None else []
                rec["hasm"] = True
            except Exception:  # noqa  (match objects of another shape: the choice is then not examined separately)
                rec["hasm"] = False
        return rec

    def _subclass(self, inner, paired, l1, a1, l2, a2):
        """Give the modifier object a subclass of its own class whose __call__ records the output: the object keeps its
        identity, its attributes and its type for isinstance() (the statistics are collected from these objects)."""
        cls = type(inner)
        recorder = self

        if paired:
            def __call__(self_, read1, read2, info1, info2):
                m = IDRE.search(read1.name)
                out = cls.__call__(self_, read1, read2, info1, info2)
                if m and out is not None and out[0] is not None and out[1] is not None:
                    try:
                        recorder.note(int(m.group(1)), recorder.rec_of(l1, a1, l2, a2, out[0], out[1], info1, info2))
                    except Exception:  # noqa
                        recorder.ok = False
                return out
        else:
            def __call__(self_, read, info):
                m = IDRE.search(read.name)
                out = cls.__call__(self_, read, info)
                if m and out is not None:
                    try:
                        recorder.note(int(m.group(1)), recorder.rec_of(l1, a1, "", 0, out, None, info, None))
                    except Exception:  # noqa
                        recorder.ok = False
                return out
        sub = type(cls.__name__, (cls,), {"__call__": __call__, "__module__": cls.__module__})
        inner.__class__ = sub

    def wrap_single(self, inner):
        lab, arg = label_of(inner)
        self._subclass(inner, False, lab, arg, "", 0)
        return inner

    def wrap_paired(self, inner):
        if type(inner).__name__ == "PairedEndModifierWrapper":
            l1, a1 = label_of(getattr(inner, "_modifier1", None))
            l2, a2 = label_of(getattr(inner, "_modifier2", None))
            if not hasattr(inner, "_modifier1"):
                l1 = l2 = "unknown"
        else:
            l1, a1 = label_of(inner)
            l2, a2 = l1, a1
        self._subclass(inner, True, l1, a1, l2, a2)
        return inner

    def instrument(self, pipeline):
        try:
            mods = pipeline._modifiers
            paired = bool(getattr(pipeline, "paired", False))
            for m in mods:
                if paired:
                    self.wrap_paired(m)
                else:
                    self.wrap_single(m)
        except Exception:  # noqa
            self.ok = False
