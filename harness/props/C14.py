"""C14 Poly-A, N-end trimming, N counts and expected errors match their definitions."""
import itertools
import os
from fractions import Fraction

from harness.cli_run import run_cli, parse_records, codes, fastq_bytes


def observe(e):
    """(Re-)compute the real code's answer for event e (used by generation and replay)."""
    from cutadapt.qualtrim import poly_a_trim_index, expected_errors
    from cutadapt.modifiers import NEndTrimmer
    from cutadapt.predicates import TooManyN
    from cutadapt.info import ModificationInfo
    from dnaio import SequenceRecord
    s = lambda c: "".join(map(chr, c))
    f = e["f"]
    if f == "polya":
        e["out"] = [poly_a_trim_index(s(e["seq"]))]
    elif f == "polyt":
        e["out"] = [poly_a_trim_index(s(e["seq"]), revcomp=True)]
    elif f == "trimn":
        seq = s(e["seq"])
        r = SequenceRecord("r", seq, "I" * len(seq))
        out = NEndTrimmer()(r, ModificationInfo(r))
        e["out"] = codes(out.sequence)
        e["qlen"] = len(out.qualities)
    elif f == "toomanyn":
        seq = s(e["seq"])
        r = SequenceRecord("r", seq)
        val = e["a"] / e["b"] if e["b"] != 1 else e["a"]
        e["out"] = [1 if TooManyN(val).test(r, ModificationInfo(r)) else 0]
    elif f == "ee":
        v = expected_errors(s(e["q"]), e["base"])
        n = round(v * 10**12)
        e["out"] = [n // 10**6, n % 10**6]
        e["value"] = repr(v)
    return e


def gen_events(ctx):
    rng = ctx.rng
    ev = []

    def add(**kw):
        kw["id"] = len(ev)
        ev.append(observe(kw))

    # poly-A / poly-T: complete small scope + tails at the 20% boundary
    maxlen = 7 if ctx.quick else 9
    for n in range(maxlen + 1):
        for tup in itertools.product("ACN" if ctx.quick else "ACNa", repeat=n):
            if n >= 6 and rng.random() < (0.7 if ctx.quick else 0.5):
                continue
            seq = "".join(tup)
            add(f="polya", seq=codes(seq))
            add(f="polyt", seq=codes(seq.replace("A", "T").replace("a", "t")[::-1]))
    n_rand = 1500 if ctx.quick else 40000
    for _ in range(n_rand):
        n = rng.randint(0, 45)
        body = "".join(rng.choice("ACGTN") for _ in range(rng.randint(0, 12)))
        tail_len = rng.choice((0, 1, 2, 3, 4, 5, 6, 9, 10, 11, 14, 15, 16, 19, 20, 21, 24, 25, 26, 40, 41))
        others = rng.choice((0, 0, 1, 2, tail_len // 5, tail_len // 5 + 1, max(0, tail_len // 5 - 1)))
        tail = ["A"] * tail_len
        for _i in range(min(others, tail_len)):
            tail[rng.randrange(tail_len)] = rng.choice("CGTNa")
        seq = body + "".join(tail)
        add(f="polya", seq=codes(seq))
        comp = {"A": "T", "C": "G", "G": "C", "T": "A", "N": "N", "a": "t"}
        add(f="polyt", seq=codes("".join(comp[c] for c in reversed(seq))))
    # N ends and N counts
    for n in range(0, 6 if ctx.quick else 7):
        for tup in itertools.product("NnA", repeat=n):
            seq = "".join(tup)
            add(f="trimn", seq=codes(seq))
            for a, b in ((0, 1), (1, 1), (2, 1), (1, 2), (1, 3), (2, 5), (1, 4)):
                if rng.random() < 0.5:
                    add(f="toomanyn", seq=codes(seq), a=a, b=b)
    for _ in range(500 if ctx.quick else 10000):
        n = rng.randint(0, 30)
        seq = "N" * rng.randint(0, 4) + "".join(rng.choice("ACGTNn") for _ in range(n)) + "N" * rng.randint(0, 4)
        add(f="trimn", seq=codes(seq))
        cnt = seq.lower().count("n")
        L = len(seq)
        # thresholds on and next to the boundary; fractions as exactly representable dyadic/decimal values
        choices = [(cnt, 1), (cnt + 1, 1), (max(cnt - 1, 0), 1), (1, 2), (1, 4), (3, 4), (1, 8)]
        if L and cnt < L:
            choices.append((cnt, L))      # exactly the fraction: not "more than"
        a, b = rng.choice(choices)
        if b != 1 and Fraction(a, b) >= 1:
            a, b = 1, 2
        if b != 1:
            # only keep fractions where double division and exact rational comparison agree (R3)
            exact = L > 0 and Fraction(cnt, L) > Fraction(a, b)
            fl = L > 0 and (cnt / L) > (a / b)
            if exact != fl:
                ctx.extra["float_excluded"] = ctx.extra.get("float_excluded", 0) + 1
                continue
        add(f="toomanyn", seq=codes(seq), a=a, b=b)
    # expected errors
    for _ in range(800 if ctx.quick else 20000):
        base = rng.choice((33, 33, 64))
        n = rng.choice((0, 1, 2, 3, 4, 5, 6, 7, 8, 9)) if rng.random() < 0.3 else rng.randint(0, 300)
        hi = 126 - base
        mode = rng.random()
        if mode < 0.5:
            q = [rng.randint(0, hi) for _ in range(n)]
        elif mode < 0.8:
            q = [rng.choice((0, 1, 2, 10, 20, 30, 40, hi)) for _ in range(n)]
        else:
            q = [rng.randint(0, 5)] * n
        add(f="ee", q=[base + v for v in q], base=base)
    # command-line runs with --poly-a / --trim-n
    n_cli = 25 if ctx.quick else 300
    for k in range(n_cli):
        reads = []
        for r in range(rng.randint(1, 9)):
            body = "".join(rng.choice("ACGTN") for _ in range(rng.randint(0, 10)))
            tl = rng.choice((0, 2, 3, 5, 10, 11))
            tail = ["A"] * tl
            for _i in range(rng.choice((0, 0, 1, 2))):
                if tl:
                    tail[rng.randrange(tl)] = rng.choice("CN")
            seq = "N" * rng.randint(0, 2) + body + "".join(tail) + "N" * rng.choice((0, 0, 1, 3))
            reads.append((f"r{r}", seq, "".join(chr(33 + rng.randint(2, 40)) for _ in seq)))
        polya, trimn = rng.choice(((True, False), (False, True), (True, True)))
        argv = (["--poly-a"] if polya else []) + (["--trim-n"] if trimn else [])
        if rng.random() < 0.5:
            argv.reverse()
        argv += ["--json", "rep.json", "-o", "out.fastq", "in.fastq"]
        res = run_cli(argv, {"in.fastq": fastq_bytes(reads)}, os.path.join(ctx.scratch, "cli"))
        if res.exit != 0 or res.json is None or "out.fastq" not in res.files:
            ctx.violation("CommandLineRunSucceeds", "C14:cli-run-failed",
                          dict(argv=argv, exit=res.exit, errors=res.errors[:3], exc=repr(res.exception)))
            continue
        _, outs = parse_records(res.files["out.fastq"])
        kw = dict(f="crun", argv=" ".join(argv), polya=polya, trimn=trimn,
                  reads=[dict(seq=codes(s), q=codes(q)) for _, s, q in reads],
                  outs=[dict(seq=codes(s), q=codes(q or "")) for _, s, q in outs],
                  reported=res.json["basepair_counts"]["poly_a_trimmed"] or 0)
        kw["id"] = len(ev)
        ev.append(kw)
    return ev


def _judge(ctx, ev):
    res = ctx.validate("Trace_Fn", "Trace_Fn.cfg", ev)
    for i, clauses in res.items():
        e = [x for x in ev if x["id"] == i][0]
        for c in clauses:
            ctx.violation(c, f"C14:{c}:{e['f']}", e, case=e)
    # quality slice of NEndTrimmer output: qualities stay in step (observed length only)
    for e in ev:
        if e["f"] == "trimn" and e.get("qlen") != len(e["out"]):
            ctx.violation("TrimNQualitiesInStep", "C14:TrimNQualitiesInStep", e, case=e)


def run(ctx):
    ctx.mc("MC_ReadOps", "MC_ReadOps.cfg" if ctx.quick else "MC_ReadOps_thorough.cfg")
    if not ctx.quick:
        ctx.mc("MC_ReadOps", "MC_ReadOps_long.cfg")
    ev = gen_events(ctx)
    _judge(ctx, ev)
    kinds = {}
    for e in ev:
        kinds[e["f"]] = kinds.get(e["f"], 0) + 1
        if kinds[e["f"]] == 3:
            ctx.sample(e, limit=8)
    ctx.extra["event_counts"] = kinds
    ctx.assumptions += [
        "TLC/SANY and the Json module are trusted",
        "expected errors: checked to (n+20) * 1e-12 absolute against a table generated from the definition with 60-digit decimals",
        "--max-n fractions are only sampled where double division and exact rational comparison agree (count in coverage.float_excluded)",
    ]


def replay(ctx, path):
    import json
    with open(path) as f:
        rp = json.load(f)
    e = rp["observation"]
    if "f" not in e:
        ctx.violation(rp["clause"], rp["signature"], e)
        return
    e["id"] = 0
    if e["f"] != "crun":
        observe(e)
    _judge(ctx, [e])
