"""C08 An adapter index changes only speed, never what is found."""
import itertools
import json

from harness.gen_match import codes, mutate, random_read


def build(kind, specs, perm):
    import cutadapt.adapters as A
    cls = A.PrefixAdapter if kind else A.SuffixAdapter
    return [cls(specs[i]["seq"], max_errors=specs[i]["rate"], indels=specs[i]["indels"], name=f"a{i}") for i in perm]


def lookup(ads, perm, read, index):
    from cutadapt.modifiers import AdapterCutter
    cutter = AdapterCutter(ads, index=index)
    try:
        m = cutter.adapters.match_to(read)
    except Exception as ex:  # noqa
        return dict(found=False, ad=0, rs=0, re=0, errors=0, crash=repr(ex))
    if m is None:
        return dict(found=False, ad=0, rs=0, re=0, errors=0)
    return dict(found=True, ad=1 + int(m.adapter.name[1:]), rs=m.rstart, re=m.rstop, errors=m.errors)


def gen(ctx, n_sets, reads_per_set):
    rng = ctx.rng
    ev = []
    cutters = 0
    while n_sets > 0:
        n_sets -= 1
        prefix = rng.random() < 0.5
        na = rng.choice((2, 2, 3, 3, 4))
        equal = rng.random() < 0.5
        indels_all = rng.random() < 0.5
        m0 = rng.randint(4, 9)
        base = random_read(rng, m0)
        specs = []
        seen = set()
        directed = rng.random() < 0.2
        if directed:
            # "tie, then a strictly better adapter": two adapters one substitution away from a third one
            equal, na = True, 0
            x = base
            others = set()
            while len(others) < rng.choice((2, 2, 3)):
                o = list(x)
                i = rng.randrange(len(o))
                o[i] = rng.choice([c for c in "ACGT" if c != o[i]])
                others.add("".join(o))
            ind = rng.random() < 0.3
            for seq, k in [(x, rng.choice((0, 0, 1)))] + [(o, rng.choice((1, 1, 2))) for o in sorted(others)]:
                k = min(k, len(seq) - 1)
                specs.append(dict(seq=seq, k=k, rate=(k + 0.5) / len(seq), indels=ind))
            rng.shuffle(specs)
        for i in range(na):
            m = m0 if equal else rng.randint(3, 10)
            mode = rng.random()
            if mode < 0.5 and equal:
                # similar adapters: ties, ambiguity; sometimes the common ancestor itself (at distance 1 from the others)
                seq = base if (rng.random() < 0.3 and base not in seen) else mutate(rng, base, rng.choice((1, 1, 2)), indels=False)
            elif mode < 0.7 and not equal:
                seq = (base + random_read(rng, 10))[:m]                               # one adapter a prefix of another
            else:
                seq = random_read(rng, m)
            if seq in seen or not seq:
                seq = random_read(rng, max(3, len(seq)))
            seen.add(seq)
            k = rng.choice((0, 1, 1, 2)) if not ctx.quick or len(seq) <= 8 else rng.choice((0, 1))
            if not ctx.quick and rng.random() < 0.1:
                k = 3
            k = min(k, len(seq) - 1)
            rate = (k + 0.5) / len(seq)
            if int(rate * len(seq)) != k or rate >= 1:
                continue
            specs.append(dict(seq=seq, k=k, rate=rate, indels=(indels_all if rng.random() < 0.8 else not indels_all)))
        if len(specs) < 2 or len({s["seq"] for s in specs}) < len(specs):
            continue
        perms = list(itertools.permutations(range(len(specs))))
        if len(perms) > 6:
            perms = [perms[0]] + rng.sample(perms[1:], 5)
        built = {p: build(prefix, specs, p) for p in perms}
        ident = perms[0]
        from cutadapt.modifiers import AdapterCutter
        idx = {p: AdapterCutter(built[p], index=True) for p in perms}
        seqc = AdapterCutter(built[ident], index=False)
        cutters += len(perms)
        reads = []
        for _ in range(reads_per_set):
            sp = rng.choice(specs)
            mode = rng.random()
            if mode < 0.45:
                occ = mutate(rng, sp["seq"], rng.choice((0, 1, sp["k"], sp["k"] + 1)), indels=sp["indels"])
            elif mode < 0.6:
                occ = sp["seq"]                                   # the read consists of exactly one adapter (+ tail below)
            elif mode < 0.7:
                occ = sp["seq"][: rng.randint(0, len(sp["seq"]))]   # shorter than the indexed strings
            elif mode < 0.8:
                o = list(sp["seq"])
                o[rng.randrange(len(o))] = "N"
                occ = "".join(o)
            else:
                occ = random_read(rng, rng.randint(0, 12))
            tail = random_read(rng, rng.choice((0, 0, 1, 2, 6)))
            read = (occ + tail) if prefix else (tail + occ)
            if rng.random() < 0.1:
                read = read.lower()
            reads.append(read)
            if 0.7 <= mode < 0.8 or (occ and rng.random() < 0.08):
                # a family of reads that differ only in where N stands for A: one look-up must not colour the next
                t = list(occ)
                pos = rng.sample(range(len(t)), min(len(t), rng.choice((1, 2, 2, 3))))
                for i in pos:
                    t[i] = "A"
                for _ in range(rng.choice((2, 3))):
                    v = list(t)
                    for i in pos:
                        if rng.random() < 0.5:
                            v[i] = "N"
                    v = "".join(v)
                    reads.append((v + tail) if prefix else (tail + v))
        for read in reads:
            def res(cutter, perm):
                try:
                    m = cutter.adapters.match_to(read)
                except Exception as ex:  # noqa
                    return dict(found=False, ad=0, rs=0, re=0, errors=0, crash=repr(ex))
                if m is None:
                    return dict(found=False, ad=0, rs=0, re=0, errors=0)
                return dict(found=True, ad=1 + int(m.adapter.name[1:]), rs=m.rstart, re=m.rstop, errors=m.errors)
            e = dict(id=len(ev), prefix=prefix, r=codes(read),
                     ads=[dict(seq=codes(s["seq"]), k=s["k"], indels=s["indels"]) for s in specs],
                     res=res(idx[ident], ident), seqres=res(seqc, ident),
                     perms=[res(idx[p], p) for p in perms[1:]],
                     readable=dict(kind="anchored 5'" if prefix else "anchored 3'", read=read,
                                   adapters=[(s["seq"], s["k"], "indels" if s["indels"] else "noindels") for s in specs]))
            ev.append(e)
    ctx.extra["index_objects_built"] = cutters
    return ev


def judge(ctx, ev):
    res = ctx.validate("Trace_Index", "Trace_Index.cfg", [{k: v for k, v in e.items() if k != "readable"} for e in ev])
    byid = {e["id"]: e for e in ev}
    for i, clauses in res.items():
        e = byid[i]
        obs = dict(e["readable"], indexed=e["res"], one_by_one=e["seqres"], other_orders=e["perms"])
        for c in clauses:
            kinds = "indels" if any(a["indels"] for a in e["ads"]) else "noindels"
            if c == "AgreesWithOneByOne.TieAmongTolerantAdaptersWhileNearestIsOutOfTolerance":
                ctx.violation(c, "C08:AgreesWithOneByOne:tie-among-tolerant-adapters-while-nearest-adapter-is-out-of-tolerance", obs, case=obs)
                continue
            ctx.violation(c, f"C08:{c}:{'prefix' if e['prefix'] else 'suffix'}:{kinds}", obs, case=obs)
    for e in ev:
        if "crash" in e["res"]:
            ctx.violation("IndexedLookupCompletes", "C08:crash", dict(e["readable"], crash=e["res"]["crash"]))


def run(ctx):
    ctx.mc("MC_AdapterIndex", "MC_AdapterIndex_quick.cfg", workers=12, timeout=3000)
    ctx.mc("MC_AdapterIndex", "MC_AdapterIndex_indels.cfg", workers=12, timeout=3000)
    if not ctx.quick:
        ctx.mc("MC_AdapterIndex", "MC_AdapterIndex_hamming.cfg", workers=14, timeout=6000)
    r = ctx.mc("MC_AdapterIndex", "MC_AdapterIndex_orig.cfg", workers=4, timeout=3000, allow_violation=True)
    ctx.extra["original_rule_counterexample_found_by_TLC"] = r["violated"] == "IndexIsDeclarative"
    ev = gen(ctx, 250 if ctx.quick else 6000, 14)
    judge(ctx, ev)
    ctx.extra["events"] = len(ev)
    ctx.extra["events_index_found"] = sum(1 for e in ev if e["res"]["found"])
    ctx.extra["events_index_differs_from_one_by_one"] = sum(1 for e in ev if (e["res"]["found"], e["res"]["ad"]) != (e["seqres"]["found"], e["seqres"]["ad"]))
    for e in ev[:: max(1, len(ev) // 4)][:4]:
        ctx.sample(dict(e["readable"], indexed=e["res"], one_by_one=e["seqres"]))
    ctx.assumptions += ["adapters over ACGT; k = floor(rate * length) is chosen with rate = (k + 0.5) / length and vetted",
                        "the side conditions of the agreement / order clauses are evaluated in the specification, not assumed by the generator"]


def reobserve(readable):
    """Re-run the look-ups of a stored observation against the current tree."""
    from cutadapt.modifiers import AdapterCutter
    prefix = readable["kind"] == "anchored 5'"
    specs = [dict(seq=a[0], k=a[1], rate=(a[1] + 0.5) / len(a[0]), indels=a[2] == "indels") for a in readable["adapters"]]
    perms = list(itertools.permutations(range(len(specs))))[:6]
    read = readable["read"]
    return dict(id=0, prefix=prefix, r=codes(read),
                ads=[dict(seq=codes(s["seq"]), k=s["k"], indels=s["indels"]) for s in specs],
                res=lookup(build(prefix, specs, perms[0]), perms[0], read, True),
                seqres=lookup(build(prefix, specs, perms[0]), perms[0], read, False),
                perms=[lookup(build(prefix, specs, p), p, read, True) for p in perms[1:]], readable=readable)


def replay(ctx, path):
    rp = json.load(open(path))
    o = rp["observation"]
    e = reobserve(dict(kind=o["kind"], read=o["read"], adapters=o["adapters"]))
    judge(ctx, [e])
    if not ctx.violations:
        print("note: a single fresh look-up of the stored read no longer violates the clause "
              "(violations that depend on earlier look-ups through the same index need the full run)")
