"""C01 Every reported adapter match is a genuine, in-tolerance occurrence."""
import json
from harness import gen_match as G
from harness import matchprops as M


def judge(ctx, ev):
    res = ctx.validate("Trace_Match", "Trace_Match.cfg", ev)
    byid = {e["id"]: e for e in ev}
    for i, clauses in res.items():
        e = byid[i]
        for c in clauses:
            ctx.violation(c, "C01:" + G.signature(e, c), M.readable(e), case=M.readable(e))
    for e in ev:
        if e.get("crash"):
            ctx.violation("C01.NoCrash", f"C01:crash:{e['typ']}", M.readable(e), case=M.readable(e))


def run(ctx):
    ctx.mc("MC_AdapterMatch", "MC_AdapterMatch.cfg" if ctx.quick else "MC_AdapterMatch_thorough.cfg",
           workers=12, timeout=3000)
    ev = M.gen(ctx, ["C01"], 6000 if ctx.quick else 150000, 14000 if ctx.quick else 400000)
    ev += G.targeted_events(ctx.rng, 5000 if ctx.quick else 150000, ["C01"])
    for i, e in enumerate(ev):
        e["id"] = i
    judge(ctx, ev)
    M.stats(ctx, ev)
    ctx.assumptions += [
        "TLC/SANY/Json module trusted",
        "error rates are rationals in the specification; only (rate, length) combinations whose double arithmetic agrees with exact arithmetic are sampled (R3)",
        "reads drawn from ACGTN acgtn plus '-' and '.'; 'U' in reads is a documented grey zone and not generated",
    ]


def replay(ctx, path):
    rp = json.load(open(path))
    e = rp["observation"]
    cfg = G.make_config(e["typ"], e["adapter"], __import__("fractions").Fraction(e["num"], e["den"]), e["ovl"],
                        aw_req=e["aw"] or all(c in "ACGT" for c in e["adapter"]), rw=e["rw"], indels=e["indels"])
    ne = G.observe(cfg, e["read"], ["C01"])
    ne["id"] = 0
    judge(ctx, [ne])
