"""C01 Every reported adapter match is a genuine, in-tolerance occurrence."""
import json
from harness import gen_match as G
from harness import matchprops as M


def judge(ctx, ev):
    res = ctx.validate("Trace_Match", "Trace_Match.cfg", ev)
    byid = {e["id"]: e for e in ev}
    for i, clauses in res.items():
        e = byid[i]
        for c in clauses:
            if c.startswith("ALG."):
                ctx.extra["alg_disagreements"] = ctx.extra.get("alg_disagreements", 0) + 1
                if ctx.extra["alg_disagreements"] <= 3:
                    ctx.extra.setdefault("alg_disagreement_examples", []).append(M.readable(e))
                continue
            ctx.violation(c, "C01:" + G.signature(e, c), M.readable(e), case=M.readable(e))
    for e in ev:
        if e.get("crash"):
            ctx.violation("C01.NoCrash", f"C01:crash:{e['typ']}", M.readable(e), case=M.readable(e))


def indexed(ctx, n_sets):
    """A match reported through the adapter index is a reported match too: same genuineness clause (Trace_Index.Sound)."""
    from harness.props import C08
    iev = C08.gen(ctx, n_sets, 12)
    res = ctx.validate("Trace_Index", "Trace_Index.cfg", [{k: v for k, v in e.items() if k != "readable"} for e in iev])
    byid = {e["id"]: e for e in iev}
    for i, clauses in res.items():
        e = byid[i]
        for c in clauses:
            if c.startswith("IndexedMatchSound"):
                obs = dict(e["readable"], indexed=e["res"], other_orders=e["perms"])
                kinds = "indels" if any(a["indels"] for a in e["ads"]) else "noindels"
                ctx.violation("ReportedThroughIndexIsGenuine", f"C01:index:{'prefix' if e['prefix'] else 'suffix'}:{kinds}", obs, case=obs)
    ctx.extra["indexed_events"] = len(iev)
    ctx.extra["indexed_events_found"] = sum(1 for e in iev if e["res"]["found"])


def run(ctx):
    ctx.mc("MC_AdapterMatch", "MC_AdapterMatch.cfg" if ctx.quick else "MC_AdapterMatch_thorough.cfg",
           workers=12, timeout=3000)
    ctx.mc("MC_AlignerAlg", "MC_AlignerAlg.cfg" if ctx.quick else "MC_AlignerAlg_thorough.cfg", workers=12, timeout=6000)
    ev = M.gen(ctx, ["C01", "ALG"], 6000 if ctx.quick else 150000, 14000 if ctx.quick else 400000)
    ev += G.targeted_events(ctx.rng, 5000 if ctx.quick else 150000, ["C01", "ALG"])
    for i, e in enumerate(ev):
        e["id"] = i
        if ctx.quick and i % 3:          # the transcription is compared on a third of the events in the quick tier
            e["want"] = ["C01"]
    judge(ctx, ev)
    indexed(ctx, 60 if ctx.quick else 1500)
    M.stats(ctx, ev)
    n_alg = sum(1 for e in ev if "ALG" in e["want"])
    ctx.extra["alg_events_compared"] = n_alg
    ctx.extra["model_conformance"] = round(1 - ctx.extra.get("alg_disagreements", 0) / max(1, n_alg), 5)
    ctx.assumptions += [
        "TLC/SANY/Json module trusted",
        "error rates are rationals in the specification; only (rate, length) combinations whose double arithmetic agrees with exact arithmetic are sampled (R3)",
        "reads drawn from ACGTN acgtn plus '-' and '.'; 'U' in reads is a documented grey zone and not generated",
    ]


def replay(ctx, path):
    rp = json.load(open(path))
    e = rp["observation"]
    if "indexed" in e:
        from harness.props import C08
        ne = C08.reobserve(dict(kind=e["kind"], read=e["read"], adapters=e["adapters"]))
        res = ctx.validate("Trace_Index", "Trace_Index.cfg", [{k: v for k, v in ne.items() if k != "readable"}])
        for c in res.get(0, []):
            if c.startswith("IndexedMatchSound"):
                ctx.violation("ReportedThroughIndexIsGenuine", rp["signature"], dict(ne["readable"], indexed=ne["res"], other_orders=ne["perms"]))
        return
    cfg = G.make_config(e["typ"], e["adapter"], __import__("fractions").Fraction(e["num"], e["den"]), e["ovl"],
                        aw_req=e["aw"] or all(c in "ACGT" for c in e["adapter"]), rw=e["rw"], indels=e["indels"])
    ne = G.observe(cfg, e["read"], ["C01"])
    ne["id"] = 0
    judge(ctx, [ne])
