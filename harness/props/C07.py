"""C07 The k-mer prefilter never changes which adapter match is found."""
import json
from fractions import Fraction
from harness import gen_match as G
from harness import matchprops as M


def classify(e):
    m, n = len(e["a"]), len(e["r"])
    k = (e["num"] * m) // e["den"]
    if e["found_nf"] and not e["found"]:
        res = e["res_nf"]
        inside = res[0] > 0 and res[1] < m          # read aligned strictly inside the adapter
        if inside:
            kind = "read-inside-adapter"
        elif e["indels"] and (res[3] - res[2]) != (res[1] - res[0]):
            kind = "indel-shifts-kmer-out-of-window"
        elif e["indels"]:
            kind = "indel-budget-window"
        else:
            kind = "no-indels"
        return f"C07:false-negative:{e['rule']}:{kind}"
    return f"C07:result-differs:{e['rule']}"


def judge(ctx, ev):
    res = ctx.validate("Trace_Match", "Trace_Match.cfg", ev)
    byid = {e["id"]: e for e in ev}
    for i, clauses in res.items():
        e = byid[i]
        for c in clauses:
            ctx.violation(c, classify(e), M.readable(e), case=M.readable(e))
    for e in ev:
        if e.get("crash") and not e.get("crash_nf"):
            ctx.violation("C07.NoCrash", f"C07:crash:{e['typ']}", M.readable(e), case=M.readable(e))


WANTED = {  # what each adapter class asks create_positions_and_kmers for: back, front, internal
    "Back": (True, False, True), "Front": (False, True, True), "RightmostFront": (True, False, True),
    "Anywhere": (True, True, True), "FrontNI": (False, True, False), "BackNI": (True, False, False),
    "Prefix": (False, True, False), "Suffix": (True, False, False),
    "Back;anywhere": (True, True, True), "Front;anywhere": (True, True, True),
    "RightmostFront;anywhere": (True, True, True),
}


def sets_as_data(ctx):
    """Record the search sets the real code builds for a sample of configurations and let TLC check
    them against the declarative matcher for all short reads; replay the candidates."""
    import os
    import re
    rng = ctx.rng
    cfgs, recs = [], []
    n_cfg = 40 if ctx.quick else 150
    tries = 0
    while len(cfgs) < n_cfg and tries < 100000:
        tries += 1
        typ = rng.choice(list(WANTED))
        m = rng.randint(2, 6 if ctx.quick else 7)
        ab = rng.choice(("AC", "ACG", "ACGT", "ACN"))
        seq = "".join(rng.choice(ab) for _ in range(m))
        rate = rng.choice([r for r in G.RATES if r < 1])
        cfg = G.make_config(typ, seq, rate, rng.choice((1, 2, 3, m)), aw_req=True, rw=False,
                            indels=rng.random() < 0.75)
        if cfg is None:
            continue
        ad = cfg.build()
        kf = ad.kmer_finder
        min_length = getattr(kf, "min_length", 0)
        inner = getattr(kf, "kmer_finder", kf)
        pk = getattr(inner, "positions_and_kmers", None)
        if pk is None:
            continue        # MockKmerFinder: no prefilter at all for this configuration
        f = cfg.fields()
        letters = set(seq)
        foreign = [c for c in "TGCA" if c not in letters]
        f.update(sets=[dict(start=st, stop=(0 if sp is None else sp), kmers=[G.codes(k) for k in kmers])
                       for st, sp, kmers in pk],
                 min_length=min_length, wanted=list(WANTED[typ]), foreign=ord(foreign[0]) if foreign else ord("a"))
        cfgs.append(cfg)
        recs.append(f)
    path = os.path.join(ctx.scratch, "ksets.ndjson")
    with open(path, "w") as fh:
        for rcd in recs:
            fh.write(json.dumps(rcd) + "\n")
    r = ctx.mc("MC_KmerData", "MC_KmerData.cfg" if ctx.quick else "MC_KmerData_thorough.cfg",
               env={"CONFIG_FILE": path}, workers=12, timeout=3000)
    cands = re.findall(r'<<"CAND", (\d+), <<([\d, ]*)>>>>', r["nout"])
    nonconf = set(re.findall(r'<<"NONCONF", (\d+)>>', r["nout"]))
    ctx.extra["sets_as_data_configs"] = len(recs)
    ctx.extra["model_conformance"] = round(1 - len(nonconf) / max(1, len(recs)), 4)
    ctx.extra["model_candidates_replayed"] = len(cands)
    ev = []
    for ci, rd in cands:
        read = "".join(chr(int(x)) for x in rd.split(",") if x.strip())
        ev.append(G.observe(cfgs[int(ci) - 1], read, ["C07"]))
        ctx.candidates.append(dict(config=recs[int(ci) - 1]["typ"] + ":" + cfgs[int(ci) - 1].seq, read=read))
    return ev


def run(ctx):
    ctx.mc("MC_KmerFilter", "MC_KmerFilter_quick.cfg" if ctx.quick else "MC_KmerFilter_fixed.cfg", workers=12,
           timeout=3000)
    try:
        data_ev = sets_as_data(ctx)
    except (AttributeError, TypeError, ValueError, KeyError) as ex:
        # the search sets are read from private attributes; a tree that stores them differently loses this
        # extra exploration, not the check
        data_ev = []
        ctx.extra["sets_as_data"] = f"not available in this tree ({ex!r})"
    want = ["C07"]
    if not G.bypass_effective():
        # the differential clause needs a way to switch the prefilter off; without it the declarative
        # clauses (an admissible occurrence must be found) are applied to the prefiltered result instead
        want = ["C07", "C02"]
        ctx.extra["prefilter_bypass"] = "adapter.kmer_finder is not consulted by match_to in this tree: differential clause vacuous, C02.FoundIf* clauses applied to the prefiltered result instead"
        ctx.assumptions.append("prefilter could not be switched off (see coverage.prefilter_bypass)")
    ev = G.small_scope(ctx.rng, 6000 if ctx.quick else 150000, want) + \
        G.random_events(ctx.rng, 14000 if ctx.quick else 300000, want) + \
        G.targeted_events(ctx.rng, 12000 if ctx.quick else 300000, want) + data_ev
    for i, e in enumerate(ev):
        e["id"] = i
    judge(ctx, ev)
    M.stats(ctx, ev)


def replay(ctx, path):
    rp = json.load(open(path))
    e = rp["observation"]
    cfg = G.make_config(e["typ"], e["adapter"], Fraction(e["num"], e["den"]), e["ovl"],
                        aw_req=e["aw"] or all(c in "ACGT" for c in e["adapter"]), rw=e["rw"], indels=e["indels"])
    ne = G.observe(cfg, e["read"], ["C07"])
    ne["id"] = 0
    judge(ctx, [ne])
