"""C10 Read modifications are applied in the documented fixed order"""
from harness import family_check as F


def run(ctx):
    F.run_family_check(ctx, "C10", 200, 2000, mc=[("PipelineSM", "MC_PipelineSM_quick.cfg", "MC_PipelineSM.cfg")])


replay = F.replay
