"""C06 Multi-core runs give the single-core result under every schedule."""
import base64
import json
import os
import random

from harness import vmp, tlc
from harness import runner_common as RC
from harness.cli_run import run_cli, fastq_bytes, decompress

AD1 = "AGATCGGAAGAGC"
AD2 = "CTGTCTCTTATAC"


def make_reads(rng, n, paired=False):
    reads, reads2 = [], []
    for i in range(n):
        body = "".join(rng.choice("ACGT") for _ in range(rng.randint(5, 40)))
        kind = rng.random()
        if kind < 0.3:
            seq = body + AD1[: rng.randint(3, len(AD1))]
        elif kind < 0.45:
            seq = body + AD2 + "".join(rng.choice("ACGT") for _ in range(rng.randint(0, 6)))
        elif kind < 0.55:
            seq = body + "A" * rng.randint(3, 12)
        elif kind < 0.65:
            seq = "N" * rng.randint(1, 3) + body + "NN"
        elif kind < 0.8:
            # the adapter is on the other strand: found only under --revcomp
            fwd = body + AD1[: rng.randint(6, len(AD1))]
            seq = fwd[::-1].translate(str.maketrans("ACGT", "TGCA"))
        else:
            seq = body
        qual = "".join(chr(33 + rng.choice((2, 12, 30, 38, 40))) for _ in seq)
        name = f"read{i} 1:{'Y' if rng.random() < 0.1 else 'N'}:0:ACGT"
        reads.append((name, seq, qual))
        if paired:
            s2 = "".join(rng.choice("ACGT") for _ in range(rng.randint(5, 30))) + (AD2[: rng.randint(3, 13)] if rng.random() < 0.4 else "")
            reads2.append((f"read{i} 2:N:0:ACGT", s2, "".join(chr(33 + rng.choice((5, 20, 35, 40))) for _ in s2)))
    return reads, reads2


OPTION_SETS = {
    "plain": (False, ["-a", AD1, "-o", "out.fastq"]),
    "redirect": (False, ["-a", AD1, "-m", "12", "--too-short-output", "ts.fastq", "-M", "42", "--too-long-output",
                         "tl.fastq", "--untrimmed-output", "un.fastq.gz", "-o", "out.fastq.gz"]),
    "demux": (False, ["-a", f"one={AD1}", "-a", f"two={AD2}", "-o", "dm-{name}.fastq"]),
    "infofiles": (False, ["-a", "AGATCGGNAGAGC", "-g", "first=^NNACG", "--info-file", "info.tsv", "--rest-file", "rest.txt",
                          "--wildcard-file", "wc.txt", "-o", "out.fastq"]),
    "paired": (True, ["-a", AD1, "-A", AD2, "-m", "8:8", "--too-short-output", "ts1.fastq", "--too-short-paired-output",
                      "ts2.fastq", "-o", "o1.fastq", "-p", "o2.fastq"]),
    "paired_interleaved_out": (True, ["-a", AD1, "-A", AD2, "-q", "15", "--interleaved", "-o", "inter.fastq"]),
    "revcomp": (False, ["-a", AD1, "--revcomp", "--times", "2", "-o", "out.fastq"]),
    "stats": (False, ["-q", "10,15", "-a", AD1, "--poly-a", "--max-n", "1", "--discard-casava", "-m", "5", "--trim-n",
                      "--length-tag", "len=", "-o", "out.fastq"]),
    "dupnames": (False, ["-a", f"idx={AD1}", "-a", f"idx={AD2}", "-g", "idx=ACGTACGT;o=6", "-o", "out.fastq"]),
    "discard": (False, ["-b", AD1, "--discard-untrimmed", "--max-ee", "3", "-o", "out.fasta"]),
    "revcomp_anywhere": (False, ["-b", AD1, "-a", f"lnk=ACGTAC...{AD2}", "--revcomp", "-m", "3", "-o", "out.fastq"]),
    "paired_revcomp": (True, ["-a", AD1, "-A", AD2, "--revcomp", "-o", "o1.fastq", "-p", "o2.fastq"]),
}


def norm_json(j):
    if j is None:
        return None
    j = dict(j)
    for k in ("cores", "command_line_arguments", "python_version", "cutadapt_version"):
        j.pop(k, None)
    return j


def outputs(res):
    return {k: v for k, v in sorted(res.files.items())}


def compare(ser, par):
    """End-to-end clauses; returns list of (clause, detail)."""
    bad = []
    if par.exit != ser.exit:
        bad.append(("ExitStatusEqualsSerial", dict(serial=ser.exit, parallel=par.exit, errors=par.errors[:2],
                                                   exc=repr(par.exception))))
        return bad
    fs, fp = outputs(ser), outputs(par)
    if set(fs) != set(fp):
        bad.append(("SameOutputFiles", dict(serial=sorted(fs), parallel=sorted(fp))))
    for name in fs:
        if name in fp and fs[name] != fp[name]:
            a, b = fs[name] or b"", fp[name] or b""
            k = next((i for i in range(min(len(a), len(b))) if a[i] != b[i]), min(len(a), len(b)))
            bad.append(("FilesByteIdenticalToSerial", dict(file=name, first_difference_at=k,
                                                           serial=a[max(0, k - 40): k + 60].decode(errors="replace"),
                                                           parallel=b[max(0, k - 40): k + 60].decode(errors="replace"))))
    if ser.stdout != par.stdout:
        bad.append(("StdoutByteIdenticalToSerial", {}))
    js, jp = norm_json(ser.json), norm_json(par.json)
    if js != jp:
        diff = [k for k in (js or {}) if (jp or {}).get(k) != js[k]]
        detail = {}
        for k in diff[:3]:
            detail[k] = dict(serial=js[k], parallel=(jp or {}).get(k))
        bad.append(("ReportEqualModuloCoresAndCmdline", detail))
    return bad


def policies(ctx, nw, count):
    rng = ctx.rng
    pols = []
    for k in range(count):
        mode = k % 6
        seed = rng.randrange(10**9)
        if mode == 0:
            w = None
        elif mode == 1:       # starve one worker: later chunks overtake the one it holds
            w = {f"W{rng.randrange(nw)}": 0.03}
        elif mode == 2:       # slow main process: results pile up in the pipes
            w = {"M": 0.05}
        elif mode == 3:       # slow reader
            w = {"R": 0.05}
        elif mode == 4:       # eager main, one fast worker
            w = {"M": 5.0, f"W{rng.randrange(nw)}": 4.0}
        else:
            w = {f"W{i}": rng.choice((0.05, 1, 5)) for i in range(nw)}
        pols.append((f"random(seed={seed},weights={w})", vmp.RandomPolicy(seed, w, ready_subsets=(k % 2 == 0)),
                     dict(seed=seed, weights=w, ready_subsets=(k % 2 == 0))))
    return pols


def run(ctx):
    ctx.mc("MC_Runner", "MC_Runner_quick.cfg" if ctx.quick else "MC_Runner_thorough.cfg", workers=12, timeout=3000)
    rng = ctx.rng
    records, meta = [], {}
    n_per_set = 14 if ctx.quick else 150
    executions = 0
    for oname, (paired, opts) in OPTION_SETS.items():
        for variant in range(1 if ctx.quick else 3):
            reads, reads2 = make_reads(rng, rng.choice((40, 60, 90)), paired)
            inputs = {"in1.fastq": fastq_bytes(reads)}
            infiles = ["in1.fastq"]
            if paired:
                inputs["in2.fastq"] = fastq_bytes(reads2)
                infiles.append("in2.fastq")
            base = opts + ["--json", "rep.json"] + infiles
            ser = run_cli(base, inputs, os.path.join(ctx.scratch, "ser"))
            if ser.exit != 0:
                raise RuntimeError(f"serial baseline failed for {oname}: {ser.errors} {ser.exception!r}")
            for k in range(n_per_set):
                nw = rng.choice((2, 2, 3, 4))
                bs = rng.choice((600, 900, 1500, 2500, 100000))
                nc = RC.count_chunks([inputs[f] for f in infiles], bs)
                polname, pol, polpar = policies(ctx, nw, 1)[0] if k else ("random(seed=0)", vmp.RandomPolicy(0), dict(seed=0, weights=None, ready_subsets=False))
                argv = ["-j", str(nw), "--buffer-size", str(bs)] + base
                par, sched = RC.run_virtual(argv, inputs, os.path.join(ctx.scratch, "par"), pol)
                executions += 1
                tid = len(records)
                case = dict(option_set=oname, argv=argv, policy=polname, nw=nw, nc=nc, n_reads=len(reads))
                rcase = dict(case, base=base, policy_params=polpar,
                             inputs={f: base64.b64encode(d).decode() for f, d in inputs.items()})
                if sched.deadlock:
                    ctx.violation("TerminatesUnderEverySchedule", f"C06:deadlock:{oname}",
                                  dict(case, deadlock=sched.deadlock, events=[f"{e['role']}:{e['ev']}" for e in sched.log][-30:]), case=rcase)
                    continue
                if isinstance(par, Exception):
                    raise par
                for clause, detail in compare(ser, par):
                    ctx.violation(clause, f"C06:{clause}:{oname}", dict(case, detail=detail,
                                  schedule=[f"{e['role']}:{e['ev']}" for e in sched.log]), case=rcase)
                records.append(RC.trace_record(tid, sched.log, nw, nc, par.exit, ["none"]))
                meta[tid] = case
                if k == 1 and variant == 0:
                    ctx.sample(dict(case, events=[f"{e['role']}:{e['ev']}" for e in sched.log][:40]), limit=4)
    last_record_without_newline(ctx, rng)
    real_runs(ctx, rng)
    replay_tlc_behaviours(ctx, rng)
    verdicts = RC.validate_traces(ctx, records)
    rejected = {t: v for t, v in verdicts.items() if v is not None}
    ctx.extra["virtual_executions"] = executions
    ctx.extra["distinct_schedules"] = len({json.dumps([(e["role"], e["ev"], e["worker"], e["chunk"]) for e in r["events"]]) for r in records})
    ctx.extra["model_conformance"] = round(1 - len(rejected) / max(1, len(records)), 4)
    ctx.extra["traces_rejected_by_spec"] = [dict(meta[t], rejected_at=v) for t, v in list(rejected.items())[:5]]
    ctx.assumptions += [
        "virtual multiprocessing layer: fork copy == deep copy of (pipeline, proxy files); pipes unbounded",
        "a trace that Runner.tla cannot explain lowers model_conformance and is reported, but only an end-to-end clause (files / report / exit status / termination) raises a VIOLATION (rule R1)",
        "small-scope hypothesis for the exhaustive protocol exploration (NW, NC in MC_Runner_*.cfg)",
    ]


def input_with_chunks(rng, nc, paired=False):
    """reads and a buffer size for which the reader produces exactly nc chunks"""
    for _ in range(200):
        reads, reads2 = make_reads(rng, rng.randint(6 * nc, 14 * nc), paired)
        data = [fastq_bytes(reads)] + ([fastq_bytes(reads2)] if paired else [])
        for bs in (400, 600, 800, 1000, 1300, 1700, 2200, 3000):
            try:
                if RC.count_chunks(data, bs) == nc:
                    return reads, reads2, bs
            except Exception:
                continue
    raise RuntimeError("no input with the wanted number of chunks found")


def replay_tlc_behaviours(ctx, rng):
    """spec -> code: behaviours TLC hands out (simulation of Runner, fault-free) are executed step by step by
    the real runner under the virtual scheduler; every hook event must be the event of the scheduled action
    with the same arguments, and the outputs must equal the one-core run."""
    n = 40 if ctx.quick else 1500
    done = diverged = 0
    examples = []
    for cfgname, nw, nc, share in (("MC_Runner_sim.cfg", 2, 3, 0.6), ("MC_Runner_sim34.cfg", 3, 4, 0.4)):
        behs = RC.simulate_behaviours(ctx, cfgname, max(1, int(n * share)), depth=120, seed=ctx.seed + nw)
        for oname in ("plain", "redirect", "demux", "infofiles"):
            pass
        for bi, beh in enumerate(behs):
            oname = ["plain", "redirect", "demux", "infofiles", "stats", "revcomp"][bi % 6]
            paired, opts = OPTION_SETS[oname]
            reads, reads2, bs = input_with_chunks(rng, nc, paired)
            inputs = {"in1.fastq": fastq_bytes(reads)}
            base = opts + ["--json", "rep.json", "in1.fastq"]
            ser = run_cli(base, inputs, os.path.join(ctx.scratch, "ser"))
            steps, readies = RC.script_of(beh)
            pol = vmp.ScriptPolicy(steps, seed=bi, ready_lists=readies)
            argv = ["-j", str(nw), "--buffer-size", str(bs)] + base
            par, sched = RC.run_virtual(argv, inputs, os.path.join(ctx.scratch, "par"), pol)
            case = dict(option_set=oname, argv=argv, nw=nw, nc=nc, behaviour=[" ".join(map(str, x)) for x in beh])
            rcase = dict(case, base=base, script=dict(beh=beh, seed=bi),
                         inputs={f: base64.b64encode(d).decode() for f, d in inputs.items()})
            if sched.deadlock or isinstance(par, Exception):
                ctx.violation("TerminatesUnderEverySchedule", f"C06:deadlock:{oname}:tlc-behaviour", dict(case, deadlock=sched.deadlock), case=rcase)
                continue
            done += 1
            ok = pol.mismatch is None and pol.ptr == len(steps) and len(sched.log) == len(beh) and \
                all(RC.event_matches(lab, e) for lab, e in zip(beh, sched.log))
            if not ok:
                diverged += 1
                if len(examples) < 3:
                    examples.append(dict(case, mismatch=pol.mismatch, consumed=pol.ptr, of=len(steps),
                                         events=[f"{e['role']}:{e['ev']}" for e in sched.log]))
            for clause, detail in compare(ser, par):
                ctx.violation(clause, f"C06:{clause}:{oname}", dict(case, detail=detail), case=rcase)
            if bi == 0:
                ctx.sample(dict(tlc_behaviour_replayed=case["behaviour"][:30], option_set=oname), limit=6)
    ctx.traces += done
    ctx.extra["tlc_behaviours_replayed"] = done
    ctx.extra["tlc_behaviours_diverged"] = diverged
    ctx.extra["tlc_behaviour_divergence_examples"] = examples


def last_record_without_newline(ctx, rng):
    """Inputs whose last record is not followed by a newline (legal FASTQ), with buffer sizes of a few records:
    the last chunk then sometimes consists of that record alone."""
    n_inputs = 4 if ctx.quick else 12
    runs = 0
    for k in range(n_inputs):
        paired = k % 2 == 0
        reads, reads2 = make_reads(rng, rng.randint(8, 16), paired)
        d1 = fastq_bytes(reads)
        # paired inputs in turn: the newline is missing in R2 only, in R1 only, in both files
        which = ("r2", "r1", "both")[(k // 2) % 3]
        inputs = {"in1.fastq": d1[:-1] if (not paired or which in ("r1", "both")) else d1}
        infiles = ["in1.fastq"]
        if paired:
            d2 = fastq_bytes(reads2)
            inputs["in2.fastq"] = d2[:-1] if which in ("r2", "both") else d2
            infiles.append("in2.fastq")
        opts = ["-a", AD1] + (["-A", AD2, "-o", "o1.fastq", "-p", "o2.fastq"] if paired else ["-o", "out.fastq"])
        base = opts + ["--json", "rep.json"] + infiles
        ser = run_cli(base, inputs, os.path.join(ctx.scratch, "ser"))
        if ser.exit != 0:
            raise RuntimeError(f"serial baseline failed for input without final newline: {ser.errors} {ser.exception!r}")
        longest = max(len(r[0]) + 2 * len(r[1]) + 6 for r in reads + reads2)
        # (the chunker hands out FASTQ records two at a time: with a buffer that cannot hold two records the reader
        # stops with "record does not fit into buffer"; such a size does not split the input into chunks at all and
        # is outside the property's "buffer sizes that split the input into 1..many chunks")
        for bs in sorted(rng.sample(range(2 * longest + 10, 6 * longest), 8 if ctx.quick else 30)):
            nw = rng.choice((2, 3))
            seed = rng.randrange(10**9)
            argv = ["-j", str(nw), "--buffer-size", str(bs)] + base
            par, sched = RC.run_virtual(argv, inputs, os.path.join(ctx.scratch, "par"), vmp.RandomPolicy(seed, None, True))
            runs += 1
            case = dict(option_set="no-final-newline" + ("-paired" if paired else ""), argv=argv, policy=f"random(seed={seed})", nw=nw,
                        n_reads=len(reads))
            rcase = dict(case, base=base, policy_params=dict(seed=seed, weights=None, ready_subsets=True),
                         inputs={f: base64.b64encode(d).decode() for f, d in inputs.items()})
            if sched.deadlock or isinstance(par, Exception):
                ctx.violation("TerminatesUnderEverySchedule", "C06:deadlock:no-final-newline", dict(case, deadlock=sched.deadlock), case=rcase)
                continue
            for clause, detail in compare(ser, par):
                sig = f"C06:{clause}:{case['option_set']}"
                if clause == "ExitStatusEqualsSerial" and paired and "Premature end of paired-end input" in json.dumps(detail):
                    sig = "C06:ExitStatusEqualsSerial:paired-input-last-record-without-newline-alone-in-the-last-chunk"
                ctx.violation(clause, sig, dict(case, detail=detail), case=rcase)
    ctx.extra["runs_on_inputs_without_final_newline"] = runs


class _P:
    pass


def _as_result(r, ser):
    """the observables of a real-process run in the shape compare() expects"""
    par = _P()
    par.exit, par.errors, par.exception, par.stdout = r["exit"], [r["stderr"][-200:]], None, ser.stdout
    par.files = {}
    par.json = None
    for name, data in r["files"].items():
        if name.endswith(".json"):
            try:
                par.json = json.loads(data)
            except Exception:
                par.json = None
        else:
            par.files[name] = decompress(name, data)
    return par


def real_runs(ctx, rng):
    """Real multi-process executions (OS scheduling): outputs against the one-core run, and the per-process
    hook logs validated as an interleaving that Runner allows (Trace_RunnerMP)."""
    n = 4 if ctx.quick else 60
    accepted = rejected = 0
    details = []
    for k in range(n):
        oname = rng.choice(["plain", "redirect", "demux", "paired", "stats"])
        paired, opts = OPTION_SETS[oname]
        reads, reads2 = make_reads(rng, rng.choice((40, 70)), paired)
        inputs = {"in1.fastq": fastq_bytes(reads)}
        infiles = ["in1.fastq"]
        if paired:
            inputs["in2.fastq"] = fastq_bytes(reads2)
            infiles.append("in2.fastq")
        base = opts + ["--json", "rep.json"] + infiles
        ser = run_cli(base, inputs, os.path.join(ctx.scratch, "ser"))
        nw = rng.choice((2, 3))
        bs = rng.choice((900, 1500, 2500))
        nc = RC.count_chunks([inputs[f] for f in infiles], bs)
        argv = ["-j", str(nw), "--buffer-size", str(bs)] + base
        r = RC.real_run(argv, inputs, os.path.join(ctx.scratch, "real"), os.path.join(ctx.scratch, "realtrace"), timeout=120)
        case = dict(option_set=oname, argv=argv, nw=nw, nc=nc, real_processes=True)
        rcase = dict(case, base=base, inputs={f: base64.b64encode(d).decode() for f, d in inputs.items()})
        if r["timed_out"]:
            ctx.violation("TerminatesUnderEverySchedule", f"C06:timeout:{oname}:real-process", case, case=rcase)
            continue
        par = _as_result(r, ser)
        for clause, detail in compare(ser, par):
            ctx.violation(clause, f"C06:{clause}:{oname}", dict(case, detail=detail), case=rcase)
        ok, det = RC.validate_mp_run(ctx, r["logs"], nw, nc, ["none"])
        accepted += ok
        rejected += (not ok)
        if not ok:
            details.append(dict(case, detail=det))
    ctx.extra["real_process_runs"] = n
    ctx.extra["real_process_traces_explained_by_Runner"] = accepted
    ctx.extra["real_process_traces_not_explained"] = details[:3]


def replay(ctx, path):
    """Re-execute the stored case on the current tree: one-core run, then the same command line with -j under the
    virtual scheduler with the stored policy seed; judged by the same end-to-end clauses."""
    rp = json.load(open(path))
    case = rp.get("case") or {}
    if "inputs" not in case:
        print("replay: this file carries no re-executable case (real-process run or older file); stored observation:")
        print(json.dumps(rp["observation"], indent=1)[:3000])
        raise SystemExit(2)
    inputs = {f: base64.b64decode(d) for f, d in case["inputs"].items()}
    oname = case["option_set"]
    ser = run_cli(case["base"], inputs, os.path.join(ctx.scratch, "ser"))
    brief = {k: v for k, v in case.items() if k not in ("inputs", "script")}
    if case.get("real_processes"):
        # OS scheduling cannot be repeated exactly: the command is run again several times as real processes
        for _ in range(5):
            r = RC.real_run(case["argv"], inputs, os.path.join(ctx.scratch, "real"), os.path.join(ctx.scratch, "realtrace"), timeout=120)
            if r["timed_out"]:
                ctx.violation("TerminatesUnderEverySchedule", f"C06:timeout:{oname}:real-process", brief)
                return
            par = _as_result(r, ser)
            for clause, detail in compare(ser, par):
                ctx.violation(clause, f"C06:{clause}:{oname}", dict(brief, detail=detail))
            if ctx.violations:
                return
        print("replay: 5 real multi-process executions of the stored command agree with the one-core run")
        return
    if "script" in case:
        steps, readies = RC.script_of(case["script"]["beh"])
        pol = vmp.ScriptPolicy(steps, seed=case["script"]["seed"], ready_lists=readies)
        case["policy"] = "the stored TLC behaviour"
    else:
        pp = case["policy_params"]
        pol = vmp.RandomPolicy(pp["seed"], pp["weights"], ready_subsets=pp["ready_subsets"])
    par, sched = RC.run_virtual(case["argv"], inputs, os.path.join(ctx.scratch, "par"), pol)
    if sched.deadlock:
        ctx.violation("TerminatesUnderEverySchedule", f"C06:deadlock:{oname}", dict(brief, deadlock=sched.deadlock))
        return
    if isinstance(par, Exception):
        raise par
    for clause, detail in compare(ser, par):
        sig = f"C06:{clause}:{oname}"
        if clause == "ExitStatusEqualsSerial" and oname == "no-final-newline-paired" and "Premature end of paired-end input" in json.dumps(detail):
            sig = "C06:ExitStatusEqualsSerial:paired-input-last-record-without-newline-alone-in-the-last-chunk"
        ctx.violation(clause, sig, dict(brief, detail=detail))
    print(f"replay: {' '.join(case['argv'])} re-executed under {case['policy']}: {len(ctx.violations)} clause(s) rejected")
