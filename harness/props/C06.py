"""C06 Multi-core runs give the single-core result under every schedule."""
import json
import os
import random

from harness import vmp, tlc
from harness import runner_common as RC
from harness.cli_run import run_cli, fastq_bytes, decompress

AD1 = "AGATCGGAAGAGC"
AD2 = "CTGTCTCTTATAC"


def make_reads(rng, n, paired=False):
    reads, reads2 = [], []
    for i in range(n):
        body = "".join(rng.choice("ACGT") for _ in range(rng.randint(5, 40)))
        kind = rng.random()
        if kind < 0.3:
            seq = body + AD1[: rng.randint(3, len(AD1))]
        elif kind < 0.45:
            seq = body + AD2 + "".join(rng.choice("ACGT") for _ in range(rng.randint(0, 6)))
        elif kind < 0.55:
            seq = body + "A" * rng.randint(3, 12)
        elif kind < 0.65:
            seq = "N" * rng.randint(1, 3) + body + "NN"
        else:
            seq = body
        qual = "".join(chr(33 + rng.choice((2, 12, 30, 38, 40))) for _ in seq)
        name = f"read{i} 1:{'Y' if rng.random() < 0.1 else 'N'}:0:ACGT"
        reads.append((name, seq, qual))
        if paired:
            s2 = "".join(rng.choice("ACGT") for _ in range(rng.randint(5, 30))) + (AD2[: rng.randint(3, 13)] if rng.random() < 0.4 else "")
            reads2.append((f"read{i} 2:N:0:ACGT", s2, "".join(chr(33 + rng.choice((5, 20, 35, 40))) for _ in s2)))
    return reads, reads2


OPTION_SETS = {
    "plain": (False, ["-a", AD1, "-o", "out.fastq"]),
    "redirect": (False, ["-a", AD1, "-m", "12", "--too-short-output", "ts.fastq", "-M", "42", "--too-long-output",
                         "tl.fastq", "--untrimmed-output", "un.fastq.gz", "-o", "out.fastq.gz"]),
    "demux": (False, ["-a", f"one={AD1}", "-a", f"two={AD2}", "-o", "dm-{name}.fastq"]),
    "infofiles": (False, ["-a", "AGATCGGNAGAGC", "-g", "first=^NNACG", "--info-file", "info.tsv", "--rest-file", "rest.txt",
                          "--wildcard-file", "wc.txt", "-o", "out.fastq"]),
    "paired": (True, ["-a", AD1, "-A", AD2, "-m", "8:8", "--too-short-output", "ts1.fastq", "--too-short-paired-output",
                      "ts2.fastq", "-o", "o1.fastq", "-p", "o2.fastq"]),
    "paired_interleaved_out": (True, ["-a", AD1, "-A", AD2, "-q", "15", "--interleaved", "-o", "inter.fastq"]),
    "revcomp": (False, ["-a", AD1, "--revcomp", "--times", "2", "-o", "out.fastq"]),
    "stats": (False, ["-q", "10,15", "-a", AD1, "--poly-a", "--max-n", "1", "--discard-casava", "-m", "5", "--trim-n",
                      "--length-tag", "len=", "-o", "out.fastq"]),
    "dupnames": (False, ["-a", f"idx={AD1}", "-a", f"idx={AD2}", "-g", "idx=ACGTACGT;o=6", "-o", "out.fastq"]),
    "discard": (False, ["-b", AD1, "--discard-untrimmed", "--max-ee", "3", "-o", "out.fasta"]),
}


def norm_json(j):
    if j is None:
        return None
    j = dict(j)
    for k in ("cores", "command_line_arguments", "python_version", "cutadapt_version"):
        j.pop(k, None)
    return j


def outputs(res):
    return {k: v for k, v in sorted(res.files.items())}


def compare(ser, par):
    """End-to-end clauses; returns list of (clause, detail)."""
    bad = []
    if par.exit != ser.exit:
        bad.append(("ExitStatusEqualsSerial", dict(serial=ser.exit, parallel=par.exit, errors=par.errors[:2],
                                                   exc=repr(par.exception))))
        return bad
    fs, fp = outputs(ser), outputs(par)
    if set(fs) != set(fp):
        bad.append(("SameOutputFiles", dict(serial=sorted(fs), parallel=sorted(fp))))
    for name in fs:
        if name in fp and fs[name] != fp[name]:
            a, b = fs[name] or b"", fp[name] or b""
            k = next((i for i in range(min(len(a), len(b))) if a[i] != b[i]), min(len(a), len(b)))
            bad.append(("FilesByteIdenticalToSerial", dict(file=name, first_difference_at=k,
                                                           serial=a[max(0, k - 40): k + 60].decode(errors="replace"),
                                                           parallel=b[max(0, k - 40): k + 60].decode(errors="replace"))))
    if ser.stdout != par.stdout:
        bad.append(("StdoutByteIdenticalToSerial", {}))
    js, jp = norm_json(ser.json), norm_json(par.json)
    if js != jp:
        diff = [k for k in (js or {}) if (jp or {}).get(k) != js[k]]
        detail = {}
        for k in diff[:3]:
            detail[k] = dict(serial=js[k], parallel=(jp or {}).get(k))
        bad.append(("ReportEqualModuloCoresAndCmdline", detail))
    return bad


def policies(ctx, nw, count):
    rng = ctx.rng
    pols = []
    for k in range(count):
        mode = k % 6
        seed = rng.randrange(10**9)
        if mode == 0:
            w = None
        elif mode == 1:       # starve one worker: later chunks overtake the one it holds
            w = {f"W{rng.randrange(nw)}": 0.03}
        elif mode == 2:       # slow main process: results pile up in the pipes
            w = {"M": 0.05}
        elif mode == 3:       # slow reader
            w = {"R": 0.05}
        elif mode == 4:       # eager main, one fast worker
            w = {"M": 5.0, f"W{rng.randrange(nw)}": 4.0}
        else:
            w = {f"W{i}": rng.choice((0.05, 1, 5)) for i in range(nw)}
        pols.append((f"random(seed={seed},weights={w})", vmp.RandomPolicy(seed, w, ready_subsets=(k % 2 == 0))))
    return pols


def run(ctx):
    ctx.mc("MC_Runner", "MC_Runner_quick.cfg" if ctx.quick else "MC_Runner_thorough.cfg", workers=12, timeout=3000)
    rng = ctx.rng
    records, meta = [], {}
    n_per_set = 14 if ctx.quick else 150
    executions = 0
    for oname, (paired, opts) in OPTION_SETS.items():
        for variant in range(1 if ctx.quick else 3):
            reads, reads2 = make_reads(rng, rng.choice((40, 60, 90)), paired)
            inputs = {"in1.fastq": fastq_bytes(reads)}
            infiles = ["in1.fastq"]
            if paired:
                inputs["in2.fastq"] = fastq_bytes(reads2)
                infiles.append("in2.fastq")
            base = opts + ["--json", "rep.json"] + infiles
            ser = run_cli(base, inputs, os.path.join(ctx.scratch, "ser"))
            if ser.exit != 0:
                raise RuntimeError(f"serial baseline failed for {oname}: {ser.errors} {ser.exception!r}")
            for k in range(n_per_set):
                nw = rng.choice((2, 2, 3, 4))
                bs = rng.choice((600, 900, 1500, 2500, 100000))
                nc = RC.count_chunks([inputs[f] for f in infiles], bs)
                polname, pol = policies(ctx, nw, 1)[0] if k else ("random(seed=0)", vmp.RandomPolicy(0))
                argv = ["-j", str(nw), "--buffer-size", str(bs)] + base
                par, sched = RC.run_virtual(argv, inputs, os.path.join(ctx.scratch, "par"), pol)
                executions += 1
                tid = len(records)
                case = dict(option_set=oname, argv=argv, policy=polname, nw=nw, nc=nc, n_reads=len(reads))
                if sched.deadlock:
                    ctx.violation("TerminatesUnderEverySchedule", f"C06:deadlock:{oname}",
                                  dict(case, deadlock=sched.deadlock, events=[f"{e['role']}:{e['ev']}" for e in sched.log][-30:]))
                    continue
                if isinstance(par, Exception):
                    raise par
                for clause, detail in compare(ser, par):
                    ctx.violation(clause, f"C06:{clause}:{oname}", dict(case, detail=detail,
                                  schedule=[f"{e['role']}:{e['ev']}" for e in sched.log]), case=case)
                records.append(RC.trace_record(tid, sched.log, nw, nc, par.exit, ["none"]))
                meta[tid] = case
                if k == 1 and variant == 0:
                    ctx.sample(dict(case, events=[f"{e['role']}:{e['ev']}" for e in sched.log][:40]), limit=4)
    verdicts = RC.validate_traces(ctx, records)
    rejected = {t: v for t, v in verdicts.items() if v is not None}
    ctx.extra["virtual_executions"] = executions
    ctx.extra["distinct_schedules"] = len({json.dumps([(e["role"], e["ev"], e["worker"], e["chunk"]) for e in r["events"]]) for r in records})
    ctx.extra["model_conformance"] = round(1 - len(rejected) / max(1, len(records)), 4)
    ctx.extra["traces_rejected_by_spec"] = [dict(meta[t], rejected_at=v) for t, v in list(rejected.items())[:5]]
    ctx.assumptions += [
        "virtual multiprocessing layer: fork copy == deep copy of (pipeline, proxy files); pipes unbounded",
        "a trace that Runner.tla cannot explain lowers model_conformance and is reported, but only an end-to-end clause (files / report / exit status / termination) raises a VIOLATION (rule R1)",
        "small-scope hypothesis for the exhaustive protocol exploration (NW, NC in MC_Runner_*.cfg)",
    ]


def replay(ctx, path):
    rp = json.load(open(path))
    print(json.dumps(rp["observation"], indent=1)[:3000])
    ctx.violation(rp["clause"], rp["signature"], rp["observation"])
