"""C17 The info file locates every match and reconstructs every read."""
from harness import family_check as F


def run(ctx):
    F.run_family_check(ctx, "C17", 240, 2000)


replay = F.replay
