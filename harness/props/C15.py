"""C15 Demultiplexing puts every read into the file of its adapter"""
from harness import family_check as F


def run(ctx):
    F.run_family_check(ctx, "C15", 160, 1500, want=("report", "demux"), mc=[("PipelineSM", "MC_PipelineSM_quick.cfg", "MC_PipelineSM.cfg")])


replay = F.replay
