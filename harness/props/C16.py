"""C16 --revcomp keeps the orientation that matches strictly better"""
from harness import family_check as F


def run(ctx):
    F.run_family_check(ctx, "C16", 240, 2000, mc=[("MC_AdapterCutting", "MC_AdapterCutting.cfg", "MC_AdapterCutting_thorough.cfg")])


replay = F.replay
