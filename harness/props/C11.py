"""C11 Filters use the documented criteria, in order, one destination per read"""
from harness import family_check as F


def run(ctx):
    F.run_family_check(ctx, "C11", 120, 2000, mc=[("PipelineSM", "MC_PipelineSM_quick.cfg", "MC_PipelineSM.cfg")])


replay = F.replay
