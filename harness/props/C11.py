"""C11 Filters use the documented criteria, in order, one destination per read"""
from fractions import Fraction

from harness import family_check as F
from harness.cli_run import codes


def nfraction_events(ctx, n):
    """--max-n given as a fraction that the read's N fraction equals exactly (or misses by one N): decided by
    the real TooManyN predicate, validated by Trace_Fn (clause NCountBothCases / fraction rule)."""
    from cutadapt.predicates import TooManyN
    from cutadapt.info import ModificationInfo
    from dnaio import SequenceRecord
    rng = ctx.rng
    ev = []
    while len(ev) < n:
        L = rng.choice((10, 20, 25, 40, 50, 90, 100, rng.randint(1, 120)))
        cnt = rng.randint(0, L)
        seq = ["N" if i < cnt else rng.choice("ACGT") for i in range(L)]
        rng.shuffle(seq)
        seq = "".join(c if rng.random() < 0.8 else c.lower() for c in seq)
        a, b = rng.choice(((cnt, L), (max(cnt - 1, 0), L), (cnt + 1, L)))
        if not (0 <= Fraction(a, b) < 1):
            continue
        text = str(Fraction(a, b).numerator / Fraction(a, b).denominator)
        if Fraction(text) != Fraction(a, b):
            continue                      # the decimal given on the command line must be the exact fraction
        r = SequenceRecord("r", seq)
        out = TooManyN(float(text)).test(r, ModificationInfo(r))
        ev.append(dict(id=len(ev), f="toomanyn", seq=codes(seq), a=Fraction(a, b).numerator, b=Fraction(a, b).denominator,
                       out=[1 if out else 0], text=text))
    return ev


def run(ctx):
    F.run_family_check(ctx, "C11", 200, 2000, mc=[("PipelineSM", "MC_PipelineSM_quick.cfg", "MC_PipelineSM.cfg")])
    ev = nfraction_events(ctx, 600 if ctx.quick else 20000)
    res = ctx.validate("Trace_Fn", "Trace_Fn.cfg", ev, tag="nfrac")
    for i, clauses in res.items():
        e = ev[i]
        ctx.violation("CriteriaExact:MaxNFraction", "C11:CriteriaExact:max-n-fraction",
                      dict(max_n=e["text"], sequence="".join(map(chr, e["seq"])), filtered=bool(e["out"][0])))
    ctx.extra["max_n_fraction_boundary_events"] = len(ev)


replay = F.replay
