"""C11 Filters use the documented criteria, in order, one destination per read"""
from harness import family_check as F


def run(ctx):
    F.run_family_check(ctx, "C11", 120, 2000)


replay = F.replay
