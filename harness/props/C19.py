"""C19 Results do not depend on compression, file layout or how a format is requested."""
import bz2
import gzip
import json
import lzma
import os

from harness import vmp
from harness.cli_run import run_cli, parse_records, fastq_bytes, codes, decompress

AD = "AGATCGGAAGAGC"


def make_reads(rng, n):
    r1, r2 = [], []
    for i in range(n):
        s1 = "".join(rng.choice("ACGT") for _ in range(rng.randint(4, 30))) + rng.choice(("", AD[: rng.randint(3, 13)], AD + "ACG"))
        s2 = "".join(rng.choice("ACGT") for _ in range(rng.randint(4, 30))) + rng.choice(("", AD[: rng.randint(3, 13)]))
        r1.append((f"rd{i}x 1:N:0", s1, "".join(chr(33 + rng.randint(2, 40)) for _ in s1)))
        r2.append((f"rd{i}x 2:N:0", s2, "".join(chr(33 + rng.randint(2, 40)) for _ in s2)))
    return r1, r2


def compress(data, cont):
    if cont == "plain":
        return data, ""
    if cont == "gz":
        return gzip.compress(data, mtime=0), ".gz"
    if cont == "gzmulti":
        k = data.find(b"\n@rd3x") + 1 if b"\n@rd3x" in data else (data.find(b"\n>rd3x") + 1)
        k = max(k, 1)
        return gzip.compress(data[:k], mtime=0) + gzip.compress(data[k:], mtime=0), ".gz"
    if cont == "bz2":
        return bz2.compress(data), ".bz2"
    if cont == "xz":
        return lzma.compress(data), ".xz"
    raise ValueError(cont)


def recs_json(recs):
    return [dict(name=codes(n), seq=codes(s), qual=codes(q or "")) for n, s, q in recs]


def execute(ctx, c, r1, r2, opts):
    fasta_in = c["infmt"] == "fasta"
    conv = lambda rs: [(n, s, None if fasta_in else q) for n, s, q in rs]
    ext_in = ".fasta" if fasta_in else ".fastq"
    inputs, names = {}, []
    if c["inlayout"] == "single":
        d, sfx = compress(fastq_bytes(conv(r1)), c["incont"])
        inputs["in1" + ext_in + sfx] = d
        names = ["in1" + ext_in + sfx]
    elif c["inlayout"] == "two":
        for k, rs in ((1, r1), (2, r2)):
            d, sfx = compress(fastq_bytes(conv(rs)), c["incont"])
            inputs[f"in{k}" + ext_in + sfx] = d
            names.append(f"in{k}" + ext_in + sfx)
    else:
        il = [x for pair in zip(conv(r1), conv(r2)) for x in pair]
        d, sfx = compress(fastq_bytes(il), c["incont"])
        inputs["inI" + ext_in + sfx] = d
        names = ["inI" + ext_in + sfx]
    osfx = {"plain": "", "gz": ".gz", "bz2": ".bz2", "xz": ".xz"}[c["outcont"]]
    argv = list(opts)
    outs = []
    paired = c["inlayout"] != "single"
    if c["inlayout"] == "interleaved" or c["outlayout"] == "interleaved":
        argv.append("--interleaved")
    if c["fastaflag"]:
        argv.append("--fasta")
    if c["outname"] != "stdout":
        outs = ["out1" + c["outname"] + osfx]
        argv += ["-o", outs[0]]
        if c["outlayout"] == "two":
            outs.append("out2" + c["outname"] + osfx)
            argv += ["-p", outs[1]]
    if c.get("redirect", "none") != "none":
        argv = ["-m", "14", "--too-short-output", "ts" + c["redirect"]] + argv
    if c.get("untrim"):
        argv = ["--untrimmed-output", "un1" + c["outname"] + osfx] + \
            (["--untrimmed-paired-output", "un2" + c["outname"] + osfx] if c["outlayout"] == "two" else []) + argv
    if c["cores"] > 1:
        argv = ["-j", str(c["cores"]), "--buffer-size", "600"] + argv
    argv += names
    wd = os.path.join(ctx.scratch, "lay")
    if c["outname"] == "stdout" and paired:
        # interleaved output on standard output is opened through xopen("-"), which needs a real file
        # descriptor: these configurations are executed as real processes
        from harness import runner_common as RC
        r = RC.real_run(["--quiet"] + argv, inputs, wd, os.path.join(ctx.scratch, "laytrace"), timeout=60)
        ob = dict(argv=" ".join(argv) + "  (real process)", exit=r["exit"] if not r["timed_out"] else -9, formats=[], out1=[], out2=[])
        if ob["exit"] != 0:
            ob["note"] = r["stderr"][-300:]
            return ob
        try:
            fmt, recs = parse_records(r["stdout"])
        except Exception:
            fmt, recs = "unparseable", []
        ob["formats"] = [fmt]
        ob["out1"], ob["out2"] = recs_json(recs[0::2]), recs_json(recs[1::2])
        return ob
    if c["cores"] > 1:
        res, sched = vmp.run_virtual(lambda: run_cli(argv, inputs, wd), vmp.RandomPolicy(ctx.rng.randrange(10**6), None, True))
        if isinstance(res, Exception) or sched.deadlock:
            return dict(argv=" ".join(argv), exit=-1, formats=[], out1=[], out2=[], note=f"{sched.deadlock} {res!r}")
    else:
        res = run_cli(argv, inputs, wd)
    ob = dict(argv=" ".join(argv), exit=res.exit if res.exception is None else -1, formats=[], out1=[], out2=[], redirect_format="none")
    if c.get("redirect", "none") != "none" and res.exception is None and res.exit == 0:
        try:
            ob["redirect_format"] = parse_records(res.files.get("ts" + c["redirect"]) or b"")[0]
        except Exception:
            ob["redirect_format"] = "unparseable"
    if res.exception is not None:
        ob["note"] = repr(res.exception)
    if ob["exit"] != 0:
        ob["note"] = ob.get("note", "") + " " + " ".join(res.errors[:2])
        return ob
    datas = [res.stdout] if c["outname"] == "stdout" else [res.files.get(o) for o in outs]
    parsed = []
    for dta in datas:
        try:
            fmt, recs = parse_records(dta or b"")
        except Exception as ex:  # noqa
            fmt, recs = "unparseable", []
        ob["formats"].append(fmt)
        parsed.append(recs)
    if not paired:
        ob["out1"] = recs_json(parsed[0])
    elif len(parsed) == 2:
        ob["out1"], ob["out2"] = recs_json(parsed[0]), recs_json(parsed[1])
    else:
        ob["out1"], ob["out2"] = recs_json(parsed[0][0::2]), recs_json(parsed[0][1::2])
    return ob


OPTS = ["-a", AD, "-u", "1"]


def observe_all(ctx, cfgs, r1, r2):
    opts = OPTS
    # reference: plain FASTQ, one core, plain output
    refs = {}
    def popts(paired, untrim):
        return opts + ((["-U", "1"] if untrim else ["-A", AD[:8], "-U", "1"]) if paired else [])
    for paired, redir, untrim in ((False, "none", False), (True, "none", False), (False, ".fastq", False), (True, "none", True)):
        c0 = dict(infmt="fastq", incont="plain", inlayout="two" if paired else "single", outname=".fastq", outcont="plain",
                  outlayout="two" if paired else "single", fastaflag=False, cores=1, redirect=redir, untrim=untrim)
        o = execute(ctx, c0, r1, r2, popts(paired, untrim))
        if o["exit"] != 0:
            raise RuntimeError(f"reference run failed: {o}")
        refs[(paired, redir != "none", untrim)] = (o["out1"], o["out2"])
    ev = []
    for c in cfgs:
        paired = c["inlayout"] != "single"
        o = execute(ctx, c, r1, r2, popts(paired, bool(c.get("untrim"))))
        rk = (paired, c["redirect"] != "none", bool(c.get("untrim")))
        ev.append(dict(id=len(ev), cfg=c, ref1=refs[rk][0], ref2=refs[rk][1], exit=o["exit"], formats=o["formats"],
                       redirect_format=o.get("redirect_format", "none"),
                       out1=o["out1"], out2=o["out2"], argv=o["argv"], note=o.get("note", "")))
    return ev


def judge(ctx, ev, r1, r2):
    res = ctx.validate("Trace_Layout", "Trace_Layout.cfg", [{k: v for k, v in e.items() if k not in ("argv", "note")} for e in ev])
    for i, clauses in res.items():
        e = ev[i]
        obs = dict(cfg=e["cfg"], argv=e["argv"], exit=e["exit"], formats=e["formats"], note=e["note"], records_out=len(e["out1"]))
        case = dict(obs, reads=[r1, r2])
        for c in clauses:
            if c == "RunSucceeds" and e["cfg"]["infmt"] == "fasta" and e["cfg"]["inlayout"] == "interleaved" and e["cfg"]["cores"] > 1 \
                    and "has no partner" in e["note"]:
                ctx.violation(c, "C19:RunSucceeds:interleaved-fasta-input-with-several-cores", obs, case=case)
                continue
            ctx.violation(c, f"C19:{c}:in={e['cfg']['infmt']}:out={e['cfg']['outname']}{'/' + e['cfg']['outcont'] if c.startswith('OutFormat') else ''}:cores={e['cfg']['cores']}", obs, case=case)


def run(ctx):
    out = os.path.join(ctx.scratch, "configs.ndjson")
    ctx.mc("MC_FileLayout", "MC_FileLayout.cfg", env={"OUT_FILE": out}, workers=8, timeout=3000)
    with open(out) as f:
        cfgs = [json.loads(ln) for ln in f if ln.strip()]
    ctx.extra["configurations_enumerated_by_TLC"] = len(cfgs)
    rng = ctx.rng
    if ctx.quick:
        with_redirect = [c for c in cfgs if c["redirect"] != "none"]
        with_untrim = [c for c in cfgs if c["untrim"]]
        flag_named = [c for c in cfgs if c["fastaflag"] and c["outname"] != "stdout"]
        cfgs = rng.sample([c for c in cfgs if c["redirect"] == "none" and not c["untrim"] and c not in flag_named], 220) + \
            rng.sample(with_redirect, min(60, len(with_redirect))) + rng.sample(with_untrim, min(50, len(with_untrim))) + \
            rng.sample(flag_named, min(50, len(flag_named)))
    r1, r2 = make_reads(rng, 7)
    ev = observe_all(ctx, cfgs, r1, r2)
    judge(ctx, ev, r1, r2)
    ctx.extra["configurations_executed"] = len(ev)
    ctx.extra["multi_core_virtual"] = sum(1 for e in ev if e["cfg"]["cores"] > 1)
    for e in ev[:: max(1, len(ev) // 4)][:4]:
        ctx.sample(dict(cfg=e["cfg"], argv=e["argv"], formats=e["formats"]))
    ctx.assumptions += ["the gzip/bzip2/xz codecs are trusted (outputs are decompressed with the Python standard library)",
                        "zstd is not available in this sandbox and not covered"]


def replay(ctx, path):
    """Re-execute the stored configuration (and the plain reference runs) on the stored reads and judge it again."""
    rp = json.load(open(path))
    case = rp.get("case") or {}
    if "reads" not in case:
        print("replay: this file predates re-executable replays; stored observation:")
        print(json.dumps(rp["observation"], indent=1)[:3000])
        raise SystemExit(2)
    r1 = [tuple(x) for x in case["reads"][0]]
    r2 = [tuple(x) for x in case["reads"][1]]
    ev = observe_all(ctx, [case["cfg"]], r1, r2)
    judge(ctx, ev, r1, r2)
    print(f"replay: {ev[0]['argv']} re-executed: exit={ev[0]['exit']} formats={ev[0]['formats']}; {len(ctx.violations)} clause(s) rejected")
