"""C02 Admissible adapter occurrences are found; exact copies never survive."""
import json
from fractions import Fraction
from harness import gen_match as G
from harness import matchprops as M


def classify(e, clause, nf_clauses):
    """Signature of a rejected observation.  If the same clause holds for the result obtained with
    the prefilter bypassed, the miss is a prefilter false negative (root cause shared with C07)."""
    if e["found"] != e["found_nf"] and (clause + "@nofilter") not in nf_clauses:
        m, n = len(e["a"]), len(e["r"])
        kind = "read-shorter-than-adapter" if n < m else ("indel-window" if e["indels"] else "other")
        return f"C02:prefilter-false-negative:{e['rule']}:{kind}"
    return "C02:" + G.signature(e, clause)


def judge(ctx, ev):
    res = ctx.validate("Trace_Match", "Trace_Match.cfg", ev)
    byid = {e["id"]: e for e in ev}
    for i, clauses in res.items():
        e = byid[i]
        nf = {c for c in clauses if c.endswith("@nofilter")}
        for c in clauses:
            if c.endswith("@nofilter"):
                # the aligner alone already breaks the clause: report once, under the plain name
                if c[: -len("@nofilter")] in clauses:
                    continue
                if e["found"] == e["found_nf"] and e["res"] == e["res_nf"]:
                    continue
                # differs only without the prefilter: not the property's observation point
                continue
            ctx.violation(c, classify(e, c, nf), M.readable(e), case=M.readable(e))
    for e in ev:
        if e.get("crash"):
            ctx.violation("C02.NoCrash", f"C02:crash:{e['typ']}", M.readable(e), case=M.readable(e))


def run(ctx):
    ctx.mc("MC_AlignerAlg", "MC_AlignerAlg.cfg" if ctx.quick else "MC_AlignerAlg_thorough.cfg", workers=12, timeout=6000)
    ev = M.gen(ctx, ["C02", "C02nf"], 6000 if ctx.quick else 150000, 12000 if ctx.quick else 350000)
    ev += G.targeted_events(ctx.rng, 5000 if ctx.quick else 150000, ["C02", "C02nf"])
    for i, e in enumerate(ev):
        e["id"] = i
    judge(ctx, ev)
    M.stats(ctx, ev)
    ctx.assumptions += [
        "TLC/SANY/Json module trusted",
        "the with-indels completeness clause is evaluated only for the adapter types named in the property",
        "rates as rationals, vetted against double arithmetic (R3)",
    ]


def replay(ctx, path):
    rp = json.load(open(path))
    e = rp["observation"]
    cfg = G.make_config(e["typ"], e["adapter"], Fraction(e["num"], e["den"]), e["ovl"],
                        aw_req=e["aw"] or all(c in "ACGT" for c in e["adapter"]), rw=e["rw"], indels=e["indels"])
    ne = G.observe(cfg, e["read"], ["C02", "C02nf"])
    ne["id"] = 0
    judge(ctx, [ne])
