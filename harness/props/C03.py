"""C03 Output reads are aligned slices of the input; qualities stay in step."""
from harness import family_check as F


def run(ctx):
    F.run_family_check(ctx, "C03", 300, 2500, mc=[("MC_AdapterCutting", "MC_AdapterCutting.cfg", "MC_AdapterCutting_thorough.cfg")])


replay = F.replay
