"""C20 Per-adapter statistics describe exactly the matches that were applied."""
from harness import family_check as F

LONG = "AGATCGGAAGAGCACACGTCTGAACTCCAGTCAC"
RATES = (0.05, 0.1, 0.12, 0.15, 0.2, 0.25, 0.3, 0.34, 0.07, 0.45)


def sweep(ctx):
    """allowed-error ranges: adapter lengths 1..30 x rates whose reciprocal is / is not an integer"""
    combos = [(L, r) for L in range(1, 31) for r in RATES]
    if ctx.quick:
        combos = ctx.rng.sample(combos, 45)
    out = []
    for L, r in combos:
        seq = LONG[:L]
        if ctx.rng.random() < 0.3 and L > 3:
            seq = seq[:1] + "N" + seq[2:]          # an N wildcard: the ranges end at the number of non-N bases
        out.append(dict(fmt="fastq", paired=False, demux="none", ads1=[dict(opt=ctx.rng.choice("agb"), seq=seq, restr=None, name=None)],
                        error_rate=r, overlap=1, n_reads=2))
    # an absolute number of errors (k >= 1) is turned into the rate k / (number of non-N bases): the ranges must be
    # those of that exact rate (k/n with an unwieldy decimal expansion: 1/12, 2/17, 2/13, 1/3, ...)
    abs_combos = [(L, k) for L in (3, 6, 7, 9, 11, 12, 13, 14, 17, 19, 21, 23) for k in (1, 2, 3) if k < L]
    if ctx.quick:
        abs_combos = ctx.rng.sample(abs_combos, 14)
    for L, k in abs_combos:
        seq = LONG[:L]
        out.append(dict(fmt="fastq", paired=False, demux="none",
                        ads1=[dict(opt=ctx.rng.choice("ag"), seq=seq, restr=None, name=None, params=f"max_errors={k}")],
                        error_rate=0.1, overlap=1, n_reads=2))
    return out


def run(ctx):
    F.run_family_check(ctx, "C20", 200, 2000, want=("report", "stats"), extra_configs=sweep(ctx))


replay = F.replay
