"""C20 Per-adapter statistics describe exactly the matches that were applied."""
from harness import family_check as F

LONG = "AGATCGGAAGAGCACACGTCTGAACTCCAGTCAC"
RATES = (0.05, 0.1, 0.12, 0.15, 0.2, 0.25, 0.3, 0.34, 0.07, 0.45)


def sweep(ctx):
    """allowed-error ranges: adapter lengths 1..30 x rates whose reciprocal is / is not an integer"""
    combos = [(L, r) for L in range(1, 31) for r in RATES]
    if ctx.quick:
        combos = ctx.rng.sample(combos, 45)
    out = []
    for L, r in combos:
        seq = LONG[:L]
        if ctx.rng.random() < 0.3 and L > 3:
            seq = seq[:1] + "N" + seq[2:]          # an N wildcard: the ranges end at the number of non-N bases
        out.append(dict(fmt="fastq", paired=False, demux="none", ads1=[dict(opt=ctx.rng.choice("agb"), seq=seq, restr=None, name=None)],
                        error_rate=r, overlap=1, n_reads=2))
    return out


def run(ctx):
    F.run_family_check(ctx, "C20", 200, 2000, want=("report", "stats"), extra_configs=sweep(ctx))


replay = F.replay
