"""X_CLI (beyond the listed properties): which command lines are accepted -- CliRules.tla against the real parser.

Not a property check: it never prints VIOLATION.  It reports the conformance of the rule set with the real program
(coverage.model_conformance) and lists the configurations on which they differ; the evidence goes to
conformance/X_CLI.json."""
import json
import os

from harness.cli_run import run_cli, fastq_bytes
from harness import runner_common as RC

AD, AD2 = "AGATCGGAAGAGC", "CTGTCTCTTATAC"


def reads():
    r1 = [(f"rd{i}x 1:N:0", "ACGTTGCAACGT" + AD[: 4 + i] if i % 2 else "TTGACCATGG", None) for i in range(4)]
    r1 = [(n, s, "I" * len(s)) for n, s, _ in r1]
    r2 = [(f"rd{i}x 2:N:0", "GGCATTACGG" + AD2[: 3 + i], "I" * (10 + 3 + i)) for i in range(4)]
    return r1, r2


def render(c):
    a = ["-a", "first=" + AD]
    if c["A"]:
        a += ["-A", "second=" + AD2]
    if c["U"]:
        a += ["-U", "1"]
    if c["pa"]:
        a += ["--pair-adapters"]
    if c["times"]:
        a += ["--times", "2"]
    if c["rc"]:
        a += ["--revcomp"]
    if c["m"]:
        a += ["-m", "5"]
    if c["tso"]:
        a += ["--too-short-output", "ts1.fastq"]
    if c["tsp"]:
        a += ["--too-short-paired-output", "ts2.fastq"]
    if c["uo"]:
        a += ["--untrimmed-output", "un1.fastq"]
    if c["up"]:
        a += ["--untrimmed-paired-output", "un2.fastq"]
    if c["dt"]:
        a += ["--discard-trimmed"]
    if c["du"]:
        a += ["--discard-untrimmed"]
    if c["rn"]:
        a += ["--rename", "{id} {adapter_name}"]
    if c["x"]:
        a += ["-x", "pre_"]
    if c["inter"]:
        a += ["--interleaved"]
    tag = {"none": "", "name": "-{name}", "combi": "-{name1}-{name2}"}[c["demux"]]
    if c["o"]:
        a += ["-o", f"out1{tag}.fastq"]
    if c["p"]:
        a += ["-p", f"out2{tag}.fastq"]
    r1, r2 = reads()
    inputs = {}
    if c["nin"] == 1 and c["inter"]:
        inputs["in1.fastq"] = fastq_bytes([x for pair in zip(r1, r2) for x in pair])
    else:
        inputs["in1.fastq"] = fastq_bytes(r1)
    a += ["in1.fastq"]
    if c["nin"] == 2:
        inputs["in2.fastq"] = fastq_bytes(r2)
        a += ["in2.fastq"]
    return a, inputs


def run(ctx):
    out = os.path.join(ctx.scratch, "cli.ndjson")
    ctx.mc("MC_CliRules", "MC_CliRules.cfg", env={"OUT_FILE": out}, workers=4, timeout=1200)
    with open(out) as f:
        cfgs = [json.loads(ln) for ln in f if ln.strip()]
    ctx.extra["configurations_enumerated_by_TLC"] = len(cfgs)
    if ctx.quick:
        cfgs = ctx.rng.sample(cfgs, min(len(cfgs), 300))
    ev = []
    for c in cfgs:
        argv, inputs = render(c)
        if not c["o"]:
            # records go to standard output, which the program opens through its file descriptor: a real process
            r = RC.real_run(["--quiet"] + argv, inputs, os.path.join(ctx.scratch, "clireal"), os.path.join(ctx.scratch, "clitrace"), timeout=60)
            ev.append(dict(id=len(ev), cfg=c, exit=(r["exit"] if not r["timed_out"] else -9), message=bool(r["stderr"].strip()),
                           argv=" ".join(argv) + "  (real process)", note=r["stderr"].strip().split("\n")[-1][:200]))
            continue
        res = run_cli(argv, inputs, os.path.join(ctx.scratch, "cli"))
        crashed = res.exception is not None
        ev.append(dict(id=len(ev), cfg=c, exit=(res.exit if not crashed else 1), message=bool(res.errors) or crashed,
                       argv=" ".join(argv), note=(repr(res.exception) if crashed else " ".join(res.errors[:1]))[:200]))
    res = ctx.validate("Trace_Cli", "Trace_Cli.cfg", [{k: v for k, v in e.items() if k not in ("argv", "note")} for e in ev])
    diff = []
    for i, clauses in res.items():
        e = ev[i]
        diff.append(dict(argv=e["argv"], exit=e["exit"], note=e["note"], rule_set_says=("accepted" if "Cli.AcceptedRunsToCompletion" in clauses else "refused")))
    ctx.extra["configurations_executed"] = len(ev)
    ctx.extra["accepted"] = sum(1 for e in ev if e["exit"] == 0)
    ctx.extra["refused_with_status_2"] = sum(1 for e in ev if e["exit"] == 2)
    ctx.extra["other_exit_status"] = sorted({(e["exit"], e["note"][:80]) for e in ev if e["exit"] not in (0, 2)})[:10]
    ctx.extra["model_conformance"] = round(1 - len(diff) / max(1, len(ev)), 4)
    ctx.extra["rule_set_and_program_differ_on"] = diff[:12]
    for e in ev[:: max(1, len(ev) // 4)][:4]:
        ctx.sample(dict(argv=e["argv"], exit=e["exit"]))
    ctx.assumptions += ["not a listed property: differences lower model_conformance and are listed, never a VIOLATION"]


def replay(ctx, path):
    raise SystemExit(2)
