"""C12 Broken input makes the run fail visibly; it never hangs or loses reads silently."""
import base64
import gzip
import json
import os

from harness import vmp
from harness import runner_common as RC
from harness.cli_run import run_cli, fastq_bytes, parse_records, codes


def make_input(rng, n=6, tag="r"):
    recs = []
    for i in range(n):
        L = rng.randint(6, 14)
        seq = "".join(rng.choice("ACGT") for _ in range(L))
        qual = "".join(chr(33 + rng.randint(5, 40)) for _ in range(L))
        recs.append((f"{tag}{i} extra", seq, qual))
    return recs


def split_lines(data):
    text = data.decode("latin-1")
    if not text:
        return []
    lines = text.split("\n")
    if lines[-1] == "":
        lines.pop()
    return [codes(x) for x in lines]


def expected_record(rec):
    name, seq, qual = rec
    return (name, seq[2:], qual[2:])        # the run uses -u 2: the processed form is known exactly


def leading_records(data):
    """The records a reader can legitimately hand out before it meets the damage: the leading 4-line groups of the
    damaged file that are well-formed by themselves (a dropped line can, by coincidence, leave a record whose
    'quality' line is the next header with the right length: that record is then what the file says)."""
    lines = data.decode("latin-1").split("\n")
    if lines and lines[-1] == "":
        lines.pop()
    out = []
    for j in range(0, len(lines) - 3, 4):
        h, sq, pl, ql = lines[j: j + 4]
        if h[:1] == "@" and pl[:1] == "+" and len(sq) == len(ql):
            out.append((h[1:], sq, ql))
        else:
            break
    return out


def match_output(data, recs):
    """index of the input record each output record is the processed form of (-1: none)."""
    try:
        fmt, outs = parse_records(data)
    except Exception:
        return [-1]
    exp = {expected_record(r): i for i, r in enumerate(recs)}
    return [exp.get((n, s, q), -1) for n, s, q in outs]


def prefix_of_big(data):
    """records of the big input are named b<i>: output must be b0, b1, ... in order (content checked by length rule -u 2)"""
    try:
        fmt, outs = parse_records(data)
    except Exception:
        return [-1]
    res = []
    for n, s, q in outs:
        try:
            res.append(int(n.split()[0][1:]) if len(s) == len(q or "") else -1)
        except ValueError:
            res.append(-1)
    return res


def damage_cases(ctx, recs, paired_recs=None):
    """Yield (description, bytes1, bytes2 or None, container_ok, gz)."""
    rng = ctx.rng
    data = fastq_bytes(recs)
    cases = []
    # every truncation point of the plain file (quick: a seeded sample that always contains the
    # record boundaries and the positions next to them)
    pts = list(range(1, len(data)))
    if ctx.quick:
        bounds = [i for i in range(1, len(data)) if data[i - 1: i] == b"\n"]
        near = {b + d for b in bounds for d in (-1, 0, 1) if 0 < b + d < len(data)}
        pts = sorted(near | set(rng.sample(pts, 25)))
        pts = sorted(rng.sample(pts, min(len(pts), 45)))
    for p in pts:
        cases.append((f"truncate plain at byte {p}", data[:p], None, True, False))
    # truncated gzip stream
    gz = gzip.compress(data, mtime=0)
    gpts = list(range(1, len(gz)))
    if ctx.quick:
        gpts = sorted(rng.sample(gpts, 10))
    for p in gpts:
        cases.append((f"truncate gzip at byte {p}", gz[:p], None, False, True))
    # single-record corruptions at first / middle / last record
    lines = data.decode().split("\n")[:-1]
    for rec_i in (0, len(recs) // 2, len(recs) - 1):
        for kind in ("qual-shorter", "no-plus", "no-at", "drop-line", "seq-longer"):
            ls = list(lines)
            b = 4 * rec_i
            if kind == "qual-shorter":
                ls[b + 3] = ls[b + 3][:-1]
            elif kind == "no-plus":
                ls[b + 2] = "-"
            elif kind == "no-at":
                ls[b] = "X" + ls[b][1:]
            elif kind == "drop-line":
                del ls[b + rng.choice((1, 2, 3))]
            elif kind == "seq-longer":
                ls[b + 1] = ls[b + 1] + "A"
            cases.append((f"record {rec_i}: {kind}", ("\n".join(ls) + "\n").encode(), None, True, False))
    # a larger gzip file truncated behind the first block: the failure is detected by the reader process
    # while chunks are already being processed (not at format detection)
    big = make_input(rng, 400, tag="b")
    bgz = gzip.compress(fastq_bytes(big), mtime=0)
    for p in sorted(rng.sample(range(len(bgz) // 2, len(bgz)), 4 if ctx.quick else 25)) + [len(bgz) - 4]:
        cases.append((f"truncate big gzip at byte {p}", bgz[:p], None, False, True))
    # undamaged and empty input (controls: exit 0, complete output)
    cases.append(("undamaged", data, None, True, False))
    cases.append(("empty file", b"", None, True, False))
    cases.append(("final newline missing", data[:-1], None, True, False))
    # well-formed input with one record that is exactly as long as the read buffer / one byte longer (the reader
    # may refuse it, but must not stop quietly): the buffer size is part of the case
    for bsz, extra in ((200, 0), (200, 1), (130, 0)):
        target = bsz + extra
        nm = "r2 extra" if (target - 14) % 2 == 0 else "r2 extras"
        L = (target - 6 - len(nm)) // 2
        big_rec = (nm, "ACGT" * (L // 4) + "A" * (L % 4), "I" * L)
        rs = list(recs[:2]) + [big_rec] + list(recs[3:])
        assert len(fastq_bytes([big_rec])) == target, (len(fastq_bytes([big_rec])), target)
        cases.append((f"well-formed: one record of {target} bytes, bufsize={bsz}", fastq_bytes(rs), None, True, False))
    # paired faults
    if paired_recs is not None:
        d2 = fastq_bytes(paired_recs)
        l2 = d2.decode().split("\n")[:-1]
        k = len(paired_recs) // 2
        cases.append(("paired: undamaged", data, d2, True, False))
        cases.append(("paired: R2 misses last mate", data, ("\n".join(l2[:-4]) + "\n").encode(), True, False))
        cases.append(("paired: R1 misses last mate", ("\n".join(lines[:-4]) + "\n").encode(), d2, True, False))
        bad = list(l2)
        bad[4 * k] = "@other" + bad[4 * k][3:]
        cases.append((f"paired: mate {k} renamed", data, ("\n".join(bad) + "\n").encode(), True, False))
        cases.append(("paired: R2 truncated mid-record", data, d2[: len(d2) - 7], True, False))
        cases.append(("paired: R2 empty", data, b"", True, False))
        # one file ends several records (at least one chunk of a small buffer) before the other
        h = max(1, len(paired_recs) // 2)
        cases.append(("paired: R2 holds only the first half", data, ("\n".join(l2[: 4 * h]) + "\n").encode(), True, False))
        cases.append(("paired: R1 holds only the first half, cut inside a record", ("\n".join(lines[: 4 * h + 2]) + "\n").encode(), d2, True, False))
        # well-formed input in which one R1 is used up by -u 2, with the per-read text files switched on
        # ("exit status 0 ... and then the output contains every record", whatever else the run writes)
        short = list(recs)
        short[k] = (short[k][0], short[k][1][:2], short[k][2][:2])
        cases.append(("paired: undamaged, info file, one R1 of two bases", fastq_bytes(short), d2, True, False))
        cases.append(("paired: undamaged, rest file, one R1 of two bases", fastq_bytes(short), d2, True, False))
        # one interleaved file (a single input file for the runner: dnaio reports these faults without a line number)
        il = [x for pair in zip(recs, paired_recs) for x in pair]
        dil = fastq_bytes(il)
        lil = dil.decode().split("\n")[:-1]
        cases.append(("interleaved: undamaged", dil, None, True, False))
        cases.append(("interleaved: last mate missing", ("\n".join(lil[:-4]) + "\n").encode(), None, True, False))
        badil = list(lil)
        badil[8 * k + 4] = "@other" + badil[8 * k + 4][3:]
        cases.append((f"interleaved: mate {k} renamed", ("\n".join(badil) + "\n").encode(), None, True, False))
        cases.append(("interleaved: truncated mid-record", dil[: len(dil) - 7], None, True, False))
        cases.append(("interleaved: truncated behind an R1 header", ("\n".join(lil[:-3]) + "\n").encode(), None, True, False))
    return cases


def execute(ctx, desc, recs, recs2, d1, d2, container_ok, gz, cores, bs, seed, w):
    """One execution of the damaged input; returns (event without id, hook log, deadlock, result)."""
    paired = d2 is not None
    il = desc.startswith("interleaved")
    in1 = "in1.fastq.gz" if gz else "in1.fastq"
    inputs = {in1: d1}
    if paired:
        inputs["in2.fastq"] = d2
    argv = ["-u", "2"] + (["-U", "2", "-o", "o1.fastq", "-p", "o2.fastq", in1, "in2.fastq"] if paired
                          else ["-U", "2", "--interleaved", "-o", "o1.fastq", "-p", "o2.fastq", in1] if il
                          else ["-o", "o1.fastq", in1])
    if "info file" in desc:
        argv = ["--info-file", "info.tsv"] + argv
    if "rest file" in desc:
        argv = ["--rest-file", "rest.txt", "--wildcard-file", "wc.txt"] + argv
    if cores > 1:
        argv = ["-j", str(cores), "--buffer-size", str(bs)] + argv
        res, sched = RC.run_virtual(argv, inputs, os.path.join(ctx.scratch, "f"), vmp.RandomPolicy(seed, w, True))
        deadlock = sched.deadlock
        log = sched.log
        if isinstance(res, Exception):
            res = None
    else:
        res = run_cli(argv, inputs, os.path.join(ctx.scratch, "f"))
        deadlock, log = None, []
    e = dict(desc=desc, cores=cores, argv=" ".join(argv), paired=paired or il, interleaved=il,
             container_ok=container_ok,
             lines1=split_lines(d1) if not gz else ([] if "big" in desc else split_lines(fastq_bytes(recs))),
             lines2=split_lines(d2) if paired else [],
             hung=bool(deadlock))
    if res is None or deadlock:
        e.update(exit=-9, message=False, out1=[], out2=[])
    else:
        crashed = res.exception is not None
        # what counts as "a correctly processed record of the input": the records of the file as it is (damaged)
        exp1 = recs if gz else (leading_records(d1) or recs)
        exp2 = (leading_records(d2) or recs2) if paired else recs2
        if il:
            lead = leading_records(d1)
            exp1, exp2 = (lead[0::2] or recs), (lead[1::2] or recs2)
        # an uncaught exception ends the real program with a traceback on stderr and exit
        # status 1: a visible failure (counted separately in the evidence)
        e.update(exit=(res.exit if not crashed else 1), message=bool(res.errors) or crashed,
                 out1=(prefix_of_big(res.files.get("o1.fastq", b"") or b"") if "big" in desc else
                       match_output(res.files.get("o1.fastq", b"") or b"", exp1)),
                 out2=match_output(res.files.get("o2.fastq", b"") or b"", exp2) if (paired or il) else [])
        if crashed:
            e["crash"] = repr(res.exception)
    e["policy"] = f"seed={seed},weights={w}"
    e["_replay"] = dict(desc=desc, recs=recs, recs2=recs2, d1=base64.b64encode(d1).decode(),
                        d2=base64.b64encode(d2).decode() if paired else None, container_ok=container_ok, gz=gz,
                        cores=cores, bs=bs, seed=seed, w=w)
    return e, log, deadlock, res


def judge(ctx, events):
    res = ctx.validate("Trace_Fault", "Trace_Fault.cfg", [{k: v for k, v in e.items() if k != "_replay"} for e in events])
    byid = {e["id"]: e for e in events}
    for i, clauses in res.items():
        e = byid[i]
        obs = {k: v for k, v in e.items() if k not in ("lines1", "lines2", "_replay")}
        for c in clauses:
            kind = e["desc"].split(" at byte")[0].split(":")[-1].strip() if "record" in e["desc"] else e["desc"].split(" at byte")[0]
            ctx.violation(c, f"C12:{c}:{kind}:cores={'1' if e['cores'] == 1 else 'N'}", obs, case=dict(obs, replay=e.get("_replay")))


def run(ctx):
    ctx.mc("MC_Runner", "MC_Runner_quick.cfg" if ctx.quick else "MC_Runner_thorough.cfg", workers=12, timeout=3000)
    rng = ctx.rng
    events, records, meta = [], [], {}
    n_inputs = 1 if ctx.quick else 4
    hung = 0
    for _inp in range(n_inputs):
        recs = make_input(rng, 6 if ctx.quick else rng.choice((5, 6, 8)))
        recs2 = [(n.replace("r", "r", 1), s[::-1], q[::-1]) for n, s, q in recs]
        for desc, d1, d2, container_ok, gz in damage_cases(ctx, recs, recs2):
            paired = d2 is not None
            in1 = "in1.fastq.gz" if gz else "in1.fastq"
            inputs = {in1: d1}
            if paired:
                inputs["in2.fastq"] = d2
            for cores in ((1, 2, 3) if not ctx.quick else (1, rng.choice((2, 3)))):
                bs = rng.choice((130, 200, 100000)) if "big" not in desc else rng.choice((2000, 5000))
                if "bufsize=" in desc:
                    bs = int(desc.split("bufsize=")[1])
                seed = rng.randrange(10**9) if cores > 1 else 0
                w = rng.choice((None, {"M": 0.05}, {"R": 0.05}, {"W0": 0.03}, {"M": 5.0})) if cores > 1 else None
                e, log, deadlock, res = execute(ctx, desc, recs, recs2, d1, d2, container_ok, gz, cores, bs, seed, w)
                e["id"] = len(events)
                hung += bool(res is None or deadlock)
                events.append(e)
                if cores > 1 and log and not deadlock and res is not None:
                    nc = RC.infer_nc(log, e["exit"])
                    tid = len(records)
                    records.append(RC.trace_record(tid, log, cores, nc, e["exit"],
                                                   ["none", "badchunk", "readerfail", "startfail"]))
                    meta[tid] = dict(desc=desc, argv=e["argv"], policy=e["policy"])
    judge(ctx, events)
    verdicts = RC.validate_traces(ctx, records)
    rejected = {t: v for t, v in verdicts.items() if v is not None}
    ctx.extra["executions"] = len(events)
    ctx.extra["executions_multicore_virtual"] = sum(1 for e in events if e["cores"] > 1)
    ctx.extra["damage_classes"] = sorted({e["desc"].split(" at byte")[0] for e in events})
    ctx.extra["exit_nonzero"] = sum(1 for e in events if e["exit"] != 0)
    ctx.extra["exit_zero"] = sum(1 for e in events if e["exit"] == 0)
    ctx.extra["undamaged_controls_refused"] = sorted({e["desc"] for e in events if e["exit"] != 0 and e["desc"] in
                                                      ("undamaged", "paired: undamaged", "final newline missing", "empty file")})
    ctx.extra["failed_with_uncaught_exception"] = sorted({e["desc"] + " -> " + e["crash"] for e in events if e.get("crash")})[:10]
    ctx.extra["model_conformance"] = round(1 - len(rejected) / max(1, len(records)), 4)
    ctx.extra["traces_rejected_by_spec"] = [dict(meta[t], rejected_at=v) for t, v in list(rejected.items())[:5]]
    real_runs(ctx, rng)
    replay_fault_behaviours(ctx, rng)
    for e in events[:: max(1, len(events) // 5)][:5]:
        ctx.sample({k: v for k, v in e.items() if k not in ("lines1", "lines2")})
    ctx.assumptions += [
        "well-formedness is decided in TLA+ (FastqForm) on the line structure of the damaged file; only unambiguous damage classes are generated",
        "gzip container completeness is known by construction (every proper prefix of a gzip stream is incomplete)",
        "virtual runs: 'never hangs' == the scheduler always finds a runnable process until main returns; real runs: 60 s bound",
    ]


def fault_input(rng, nc, fault):
    """An input that the reader cuts into nc chunks and that carries the fault TLC chose:
    badchunk at i   -> a record inside chunk i whose '+' line is damaged (same length: the chunking is unchanged)
    readerfail at k -> k < nc: a record larger than the buffer placed where chunk k begins (the reader cannot
                       produce chunk k); k = nc: paired input whose second file holds one record more (the reader
                       notices after the last chunk)
    startfail       -> a file whose format cannot be recognised
    Returns (recs, recs2, d1, d2, buffer size) or None if the construction does not verify."""
    import io
    import dnaio
    from harness.props.C06 import input_with_chunks
    paired = fault["kind"] == "readerfail" and fault["at"] == nc
    reads, reads2, bs = input_with_chunks(rng, nc, paired)
    d1 = fastq_bytes(reads)
    d2 = fastq_bytes(reads2) if paired else None
    if fault["kind"] == "startfail":
        return reads, reads2, b"this is not a sequence file\nat all\n", None, bs
    if paired:
        extra = ("read999 2:N:0:ACGT", "ACGTACGT", "IIIIIIII")
        d2x = d2 + fastq_bytes([extra])
        got = 0
        try:
            for _c in dnaio.read_paired_chunks(io.BytesIO(d1), io.BytesIO(d2x), bs):
                got += 1
            return None
        except Exception:  # noqa
            if got != nc:
                return None                # (the extra record changed the chunking: not the fault TLC chose)
        return reads, reads2, d1, d2x, bs
    lens = RC.chunk_lengths(d1, bs)
    assert len(lens) == nc
    off = sum(lens[: fault["at"]])
    if fault["kind"] == "badchunk":
        k = d1.find(b"\n+\n", off, off + lens[fault["at"]])
        if k < 0:
            return None
        new = d1[: k + 1] + b"-" + d1[k + 2:]
        if RC.chunk_lengths(new, bs) != lens:
            return None
        return reads, reads2, new, None, bs
    huge = b"@huge\n" + b"A" * bs + b"\n+\n" + b"I" * bs + b"\n"
    new = d1[:off] + huge + d1[off:]
    got = []
    try:
        for c in dnaio.read_chunks(io.BytesIO(new), bs):
            got.append(len(c))
        return None                      # the reader would not fail
    except Exception:  # noqa
        if got != lens[: fault["at"]]:
            return None
    return reads, reads2, new, None, bs


def replay_fault_behaviours(ctx, rng):
    """spec -> code with faults: behaviours TLC hands out for Runner with a fault chosen in the initial state are
    executed step by step by the real runner (virtual scheduler, ScriptPolicy) on an input that carries that fault.
    Every hook event must be the event of the scheduled action (divergence lowers the conformance figure, R1);
    the observed outcome is judged by the same end-to-end clauses as every other execution."""
    n = 24 if ctx.quick else 600
    done = diverged = skipped = 0
    examples, events = [], []
    kinds = {}
    for cfgname, nw, nc, share in (("MC_Runner_simfault.cfg", 2, 3, 0.6), ("MC_Runner_simfault34.cfg", 3, 4, 0.4)):
        behs = RC.simulate_behaviours(ctx, cfgname, max(1, int(n * share)), depth=150, seed=ctx.seed + 10 * nw, with_fault=True)
        for bi, (beh, fault) in enumerate(behs):
            made = None
            for _try in range(6):
                made = fault_input(rng, nc, fault)
                if made is not None:
                    break
            if made is None or not beh or beh[-1][0] != "MExc":
                skipped += 1               # (a behaviour cut off by the depth bound before the failure surfaced)
                continue
            recs, recs2, d1, d2, bs = made
            paired = d2 is not None
            inputs = {"in1.fastq": d1}
            if paired:
                inputs["in2.fastq"] = d2
            argv = ["-j", str(nw), "--buffer-size", str(bs), "-u", "2"] + \
                (["-U", "2", "-o", "o1.fastq", "-p", "o2.fastq", "in1.fastq", "in2.fastq"] if paired else ["-o", "o1.fastq", "in1.fastq"])
            steps, readies = RC.script_of(beh)
            pol = vmp.ScriptPolicy(steps, seed=bi, ready_lists=readies)
            res, sched = RC.run_virtual(argv, inputs, os.path.join(ctx.scratch, "fb"), pol)
            deadlock = sched.deadlock
            if isinstance(res, Exception):
                res = None
            desc = f"tlc behaviour with fault {fault['kind']} at {fault['at']} (nw={nw}, nc={nc})"
            kinds[fault["kind"]] = kinds.get(fault["kind"], 0) + 1
            e = dict(id=len(events), desc=desc, cores=nw, argv=" ".join(argv), paired=paired, interleaved=False, container_ok=True,
                     lines1=split_lines(d1), lines2=split_lines(d2) if paired else [], hung=bool(deadlock or res is None))
            if res is None or deadlock:
                e.update(exit=-9, message=False, out1=[], out2=[])
            else:
                crashed = res.exception is not None
                e.update(exit=(res.exit if not crashed else 1), message=bool(res.errors) or crashed,
                         out1=match_output(res.files.get("o1.fastq", b"") or b"", recs),
                         out2=match_output(res.files.get("o2.fastq", b"") or b"", recs2) if paired else [])
            e["policy"] = "TLC behaviour: " + " ".join("/".join(map(str, x)) for x in beh)[:600]
            events.append(e)
            done += 1
            ok = pol.mismatch is None and pol.ptr == len(steps) and len(sched.log) == len(beh) and \
                all(RC.event_matches(lab, ev) for lab, ev in zip(beh, sched.log))
            if not ok:
                diverged += 1
                if len(examples) < 3:
                    examples.append(dict(fault=fault, argv=e["argv"], mismatch=pol.mismatch, consumed=pol.ptr, of=len(steps),
                                         behaviour=[" ".join(map(str, x)) for x in beh],
                                         events=[f"{x['role']}:{x['ev']}" for x in sched.log]))
    judge(ctx, events)
    ctx.traces += done
    ctx.extra["tlc_fault_behaviours_replayed"] = done
    ctx.extra["tlc_fault_behaviours_by_kind"] = kinds
    ctx.extra["tlc_fault_behaviours_skipped"] = skipped
    ctx.extra["tlc_fault_behaviours_diverged"] = diverged
    ctx.extra["tlc_fault_behaviour_divergence_examples"] = examples


def real_runs(ctx, rng):
    """A few real multi-process executions (OS scheduling): exit status, message, termination."""
    n = 6 if ctx.quick else 60
    recs = make_input(rng, 8)
    data = fastq_bytes(recs)
    gz = gzip.compress(data, mtime=0)
    bad = 0
    for k in range(n):
        kind = k % 3
        if kind == 0:
            p = rng.randrange(1, len(data))
            inputs, name, wf = {"in.fastq": data[:p]}, "in.fastq", None
            lines = split_lines(data[:p])
        elif kind == 1:
            p = rng.randrange(1, len(gz))
            inputs, name, wf = {"in.fastq.gz": gz[:p]}, "in.fastq.gz", False
            lines = None
        else:
            inputs, name, wf, lines = {"in.fastq": data}, "in.fastq", True, None
        cores = rng.choice((1, 2, 3))
        # every other run writes the reads to standard output (the log then goes to stderr)
        # (--quiet: only warnings and errors are printed, so "stderr not empty" means "error message")
        argv = ["--quiet"] + (["-j", str(cores), "--buffer-size", "150"] if cores > 1 else []) + ["-u", "2"] + (["-o", "o1.fastq"] if k % 2 else []) + [name]
        r = RC.real_run(argv, inputs, os.path.join(ctx.scratch, "real"), os.path.join(ctx.scratch, "realtrace"), timeout=60)
        obs = dict(argv=" ".join(argv), truncated_at=(p if kind < 2 else None), exit=r["exit"], timed_out=r["timed_out"],
                   stderr=r["stderr"][-300:], wall=round(r["wall"], 2))
        if r["timed_out"]:
            ctx.violation("Terminates", "C12:Terminates:real-process", obs)
            continue
        if cores > 1 and r["logs"]:
            nc = RC.infer_nc(r["logs"].get("R", []), r["exit"])
            ok, det = RC.validate_mp_run(ctx, r["logs"], cores, nc, ["none", "badchunk", "readerfail", "startfail"])
            ctx.extra["real_process_traces_explained_by_Runner"] = ctx.extra.get("real_process_traces_explained_by_Runner", 0) + int(ok)
            if not ok:
                ctx.extra.setdefault("real_process_traces_not_explained", []).append(dict(obs, detail=det))
        if wf is None:
            # plain truncation: decide well-formedness with the same definition, in Python only to pick
            # the expected class of this *real* run (the TLA+ clause judged the virtual runs)
            ok = len(lines) % 4 == 0 and all(
                lines[4 * j][:1] == [64] and lines[4 * j + 2][:1] == [43] and len(lines[4 * j + 1]) == len(lines[4 * j + 3])
                for j in range(len(lines) // 4))
            wf = ok
        if wf and r["exit"] != 0:
            # not demanded by the property (exit 0 *only if* well-formed); counted so that a vacuous pass is visible
            ctx.extra["real_process_runs_well_formed_but_refused"] = ctx.extra.get("real_process_runs_well_formed_but_refused", 0) + 1
        if not wf and (r["exit"] == 0 or not r["stderr"].strip()):
            ctx.violation("MalformedGivesNonZeroAndMessage", "C12:MalformedGivesNonZeroAndMessage:real-process", obs)
        bad += (r["exit"] != 0)
    ctx.extra["real_process_runs"] = n
    ctx.extra["real_process_runs_failed_visibly"] = bad


def replay(ctx, path):
    """Re-execute the stored damaged input (same bytes, same cores / buffer size / schedule seed) and judge it again."""
    rp = json.load(open(path))
    r = (rp.get("case") or {}).get("replay")
    if not r:
        print("replay: this file carries no re-executable case (real-process run or older file); stored observation:")
        print(json.dumps(rp["observation"], indent=1)[:3000])
        raise SystemExit(2)
    recs = [tuple(x) for x in r["recs"]]
    recs2 = [tuple(x) for x in r["recs2"]]
    d1 = base64.b64decode(r["d1"])
    d2 = base64.b64decode(r["d2"]) if r["d2"] is not None else None
    e, log, deadlock, res = execute(ctx, r["desc"], recs, recs2, d1, d2, r["container_ok"], r["gz"], r["cores"], r["bs"], r["seed"], r["w"])
    e["id"] = 0
    judge(ctx, [e])
    print(f"replay: {e['argv']} on '{r['desc']}' re-executed: exit={e['exit']} message={e['message']} hung={e['hung']}; "
          f"{len(ctx.violations)} clause(s) rejected")
