"""C05 Paired-end outputs stay synchronized and pairs are filtered as a unit"""
from harness import family_check as F


def run(ctx):
    F.run_family_check(ctx, "C05", 260, 2500)


replay = F.replay
