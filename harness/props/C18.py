"""C18 Adapter specifications mean what the documented notation says."""
import json
import os
from fractions import Fraction

from harness.cli_run import run_cli, codes, fastq_bytes, reset_adapter_names

SEQ_TEXTS = ["ACGTACGTTGCA", "AANNTTGGCC", "ACG{3}TTAC", "acgtn{2}acgt", "ACGUIIACGT", "ACGT{9}AC"]


def val(v):
    f = Fraction(v[0], v[1])
    if f.denominator == 1:
        return str(f.numerator)
    return repr(float(f))


def render_part(p, five_prime, with_name=True, name="nm"):
    """One adapter in the documented notation.  five_prime: restrictions are written ^SEQ / XSEQ, else SEQ$ / SEQX."""
    s = SEQ_TEXTS[p["seq"] - 1]
    if p["restr"] == "anchor":
        s = ("^" + s) if five_prime else (s + "$")
    elif p["restr"] == "ni":
        s = ("X" + s) if five_prime else (s + "X")
    if with_name and p["named"]:
        s = name + "=" + s
    ps = []
    if p["rightmost"]:
        ps.append("rightmost")
    if p["anywhere"]:
        ps.append("anywhere")
    if p["ekey"] != "none":
        ps.append(f"{p['ekey']}={val(p['eval'])}")
    if p["okey"] != "none":
        ps.append(f"{p['okey']}={p['oval']}")
    if p["ind"] != "none":
        ps.append(p["ind"])
    if p["req"] != "none":
        ps.append(p["req"])
    return s + "".join(";" + x for x in ps)


def params_only(p):
    ps = []
    if p["ekey"] != "none":
        ps.append(f"{p['ekey']}={val(p['eval'])}")
    if p["okey"] != "none":
        ps.append(f"{p['okey']}={p['oval']}")
    if p["ind"] != "none":
        ps.append(p["ind"])
    return "".join(";" + x for x in ps)


def render(d, workdir):
    """Returns (adapter_type, spec string, files to write)."""
    typ = {"a": "back", "g": "front", "b": "anywhere"}[d["opt"]]
    files = {}
    if d["kind"] == "single":
        spec = render_part(d["p1"], five_prime=(d["opt"] != "a"))
    elif d["kind"] == "linked":
        f = render_part(d["p1"], True)
        b = render_part(d["p2"], False, with_name=False)
        spec = f + "..." + b
    else:
        five = d["opt"] != "a"
        rec1 = render_part(d["p1"], five, with_name=False) if d["fkind"] == "file:" else \
            render_part(dict(d["p1"], restr="none"), five, with_name=False)
        rec2 = render_part(d["p2"], five, with_name=False)
        # the adapter name is the first word of the header line, however the header is laid out
        import zlib
        v = zlib.crc32(json.dumps(d, sort_keys=True).encode())
        h1 = (">r1 first record", "> r1 first record", ">r1\tfirst record", ">r1")[v % 4]
        h2 = (">r2", ">r2 ", ">  r2\tx", ">r2 second")[(v // 4) % 4]
        files["ads.fasta"] = f"{h1}\n{rec1}\n{h2}\n{rec2}\n".encode()
        spec = d["fkind"] + os.path.join(workdir, "ads.fasta") + params_only(d["fpar"])
    return typ, spec, files


def describe(a):
    import cutadapt.adapters as A
    def one(x):
        r = Fraction(repr(float(x.max_error_rate))).limit_denominator(10000)
        return dict(cls=type(x).__name__, seq=codes(x.sequence), rnum=r.numerator, rden=r.denominator, ovl=x.min_overlap,
                    indels=bool(x.indels), aw=bool(x.adapter_wildcards), rw=bool(x.read_wildcards), name=codes(str(x.name)),
                    fa=bool(getattr(x, "_force_anywhere", False)))
    blank = dict(cls="", seq=[], rnum=0, rden=1, ovl=0, indels=False, aw=False, rw=False, name=[], fa=False)
    if isinstance(a, A.LinkedAdapter):
        return dict(blank, linked=True, freq=bool(a.front_required), breq=bool(a.back_required), name=codes(str(a.name)),
                    front=one(a.front_adapter), back=one(a.back_adapter))
    return dict(one(a), linked=False, freq=False, breq=False, front=blank, back=blank)


def observe(d, workdir, through_cli):
    from cutadapt.parser import make_adapters_from_specifications
    from cutadapt.adapters import InvalidCharacter
    os.makedirs(workdir, exist_ok=True)
    typ, spec, files = render(d, workdir)
    for n, data in files.items():
        with open(os.path.join(workdir, n), "wb") as f:
            f.write(data)
    g = d["glob"]
    e = Fraction(g["e"][0], g["e"][1])
    sp = dict(max_errors=float(e), min_overlap=g["o"], read_wildcards=g["rw"], adapter_wildcards=not g["nowild"],
              indels=not g["noindels"])
    obs = dict(ok=False, crash=False, exit=-100, hasmsg=False, ads=[], spec=spec)
    reset_adapter_names()
    try:
        pairs = [(typ, spec)]
        if d["kind"] == "file":
            pairs.append((typ, SEQ_TEXTS[d["fpar"]["seq"] - 1]))     # a plain specification after the file
        ads = make_adapters_from_specifications(pairs, sp)
        obs["ok"] = True
        obs["ads"] = [describe(a) for a in ads]
    except (KeyError, ValueError, InvalidCharacter) as ex:       # what the command line turns into exit status 2
        obs["err"] = repr(ex)[:200]
    except Exception as ex:  # noqa
        obs["crash"] = True
        obs["err"] = repr(ex)[:200]
    if through_cli:
        argv = ["-" + d["opt"], spec] + (["-" + d["opt"], SEQ_TEXTS[d["fpar"]["seq"] - 1]] if d["kind"] == "file" else []) + \
               ["-e", val(g["e"]), "-O", str(g["o"])]
        if g["noindels"]:
            argv.append("--no-indels")
        if g["nowild"]:
            argv.append("-N")
        if g["rw"]:
            argv.append("--match-read-wildcards")
        argv += ["-o", "out.fastq", "in.fastq"]
        res = run_cli(argv, dict(files, **{"in.fastq": fastq_bytes([("r", "ACGTACGTTGCATT", "IIIIIIIIIIIIII")])}),
                      os.path.join(workdir, "cli"))
        if res.exception is not None:
            obs["crash"] = True
            obs["exit"] = 1
        else:
            obs["exit"] = res.exit
        obs["hasmsg"] = bool(res.errors)
    return obs


def run(ctx):
    out = os.path.join(ctx.scratch, "derivations.ndjson")
    ctx.mc("MC_Grammar", "MC_Grammar.cfg" if ctx.quick else "MC_Grammar_thorough.cfg", env={"OUT_FILE": out}, workers=8,
           timeout=3000)
    with open(out) as f:
        ders = [json.loads(ln) for ln in f if ln.strip()]
    ctx.extra["derivations_enumerated_by_TLC"] = len(ders)
    rng = ctx.rng
    if ctx.quick:
        # every family is kept; within the two big ones a seeded sample
        small = [d for d in ders if d["kind"] != "single" or d["p1"]["ekey"] == "none" and d["p1"]["okey"] == "none"]
        big = [d for d in ders if d not in small]
        ders = rng.sample(small, min(len(small), 1400)) + rng.sample(big, min(len(big), 1400))
    workdir = os.path.join(ctx.scratch, "spec")
    ev = []
    n_cli = 0
    for d in ders:
        through_cli = rng.random() < (0.08 if ctx.quick else 0.2)
        n_cli += through_cli
        ev.append(dict(id=len(ev), d=d, obs=observe(d, workdir, through_cli)))
    res = ctx.validate("Trace_Grammar", "Trace_Grammar.cfg",
                       [dict(id=e["id"], d=e["d"], obs={k: v for k, v in e["obs"].items() if k not in ("spec", "err")}) for e in ev])
    for i, clauses in res.items():
        e = ev[i]
        o = dict(kind=e["d"]["kind"], option="-" + e["d"]["opt"], specification=e["obs"]["spec"], glob=e["d"]["glob"],
                 observed={k: v for k, v in e["obs"].items() if k != "ads"}, derivation=e["d"])
        for c in clauses:
            ctx.violation(c, f"C18:{c}:{e['d']['kind']}", o, case=o)
    ctx.extra["specifications_parsed"] = len(ev)
    ctx.extra["through_command_line"] = n_cli
    ctx.extra["rejected_by_parser"] = sum(1 for e in ev if not e["obs"]["ok"])
    ctx.extra["crashes"] = sum(1 for e in ev if e["obs"]["crash"])
    for e in ev[:: max(1, len(ev) // 5)][:5]:
        ctx.sample(dict(option="-" + e["d"]["opt"], specification=e["obs"]["spec"], ok=e["obs"]["ok"],
                        built=[(("linked" if a["linked"] else a["cls"])) for a in e["obs"]["ads"]]))
    ctx.assumptions += ["rendering a derivation as a string follows the documented notation (harness, ~40 lines)",
                        "only documented combinations are generated (e.g. ;anywhere only with regular -a / -g)"]


def replay(ctx, path):
    rp = json.load(open(path))
    d = rp["observation"]["derivation"]
    obs = observe(d, os.path.join(ctx.scratch, "spec"), True)
    res = ctx.validate("Trace_Grammar", "Trace_Grammar.cfg", [dict(id=0, d=d, obs={k: v for k, v in obs.items() if k not in ("spec", "err")})])
    for c in res.get(0, []):
        ctx.violation(c, f"C18:{c}:{d['kind']}", dict(specification=obs["spec"], observed=obs))
