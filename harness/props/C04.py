"""C04 Each read is written once or counted as filtered once; totals add up"""
from harness import family_check as F


def with_minimal(rng, C):
    C["_minimal"] = True
    return C


def run(ctx):
    F.run_family_check(ctx, "C04", 240, 2000, config_hook=with_minimal, mc=[("PipelineSM", "MC_PipelineSM_quick.cfg", "MC_PipelineSM.cfg")])


replay = F.replay
