"""C04 Each read is written once or counted as filtered once; totals add up"""
from harness import family_check as F


def run(ctx):
    F.run_family_check(ctx, "C04", 120, 2000)


replay = F.replay
