"""C09 Best-adapter choice, repeated rounds and linked adapters follow the rules"""
from harness import family_check as F


def run(ctx):
    F.run_family_check(ctx, "C09", 240, 2000, mc=[("MC_AdapterCutting", "MC_AdapterCutting.cfg", "MC_AdapterCutting_thorough.cfg")])


replay = F.replay
