"""C13 Quality trimming removes exactly the BWA-defined low-quality ends."""
import itertools
import os

from harness.cli_run import run_cli, parse_records, codes, fastq_bytes


class _Rec:
    def __init__(self, seq, qual):
        self.sequence, self.qualities = seq, qual


def gen_events(ctx):
    from cutadapt.qualtrim import quality_trim_index, nextseq_trim_index
    rng = ctx.rng
    ev = []

    def add(**kw):
        kw["id"] = len(ev)
        ev.append(kw)

    def qtrim(qs, c5, c3, base):
        out = list(quality_trim_index(qs, c5, c3, base))
        add(f="qtrim", q=codes(qs), a=c5, b=c3, base=base, out=out)
        nonneg = all(ord(c) >= base for c in qs)   # with negative phreds a cutoff of 0 is not a no-op
        if c5 == 0 and nonneg:
            add(f="qtrim3", q=codes(qs), a=0, b=c3, base=base, out=out)
        if c3 == 0 and nonneg:
            add(f="qtrim5", q=codes(qs), a=c5, b=0, base=base, out=out)

    # (i) complete small scope around the cutoff
    maxlen = 5 if ctx.quick else 7
    levels = [8, 9, 10, 12] if ctx.quick else [7, 9, 10, 11, 14]
    cuts = [(0, 10), (10, 0), (10, 10), (9, 11)] if ctx.quick else [(0, 10), (10, 0), (10, 10), (9, 11), (11, 9), (0, 9)]
    n_small = 0
    for n in range(maxlen + 1):
        for tup in itertools.product(levels, repeat=n):
            for base in (33, 64):
                qs = "".join(chr(base + v) for v in tup)
                for c5, c3 in cuts:
                    if ctx.quick and n == maxlen and rng.random() < 0.6:
                        continue
                    qtrim(qs, c5, c3, base)
                    n_small += 1
    # (ii) random strings over all printable quality characters
    n_rand = 1500 if ctx.quick else 40000
    for _ in range(n_rand):
        base = rng.choice((33, 64))
        n = rng.choice((0, 1, 2, 3, 5, 8, 13, 21, 34, 60)) if rng.random() < 0.3 else rng.randint(0, 60)
        mode = rng.random()
        if mode < 0.4:
            qs = "".join(chr(rng.randint(33, 126)) for _ in range(n))
        elif mode < 0.8:   # qualities hovering around a cutoff: many ties / sign changes
            c = rng.randint(2, 30)
            qs = "".join(chr(min(126, max(33, base + c + rng.choice((-3, -2, -1, 0, 0, 1, 2, 5))))) for _ in range(n))
        else:             # good middle, bad ends
            k = rng.randint(0, n)
            j = rng.randint(k, n)
            qs = "".join(chr(base + (rng.randint(0, 8) if (i < k or i >= j) else rng.randint(15, 40))) for i in range(n))
        c5 = rng.choice((0, 0, 5, 10, 15, 20, 30, rng.randint(0, 45)))
        c3 = rng.choice((0, 5, 10, 15, 20, 30, rng.randint(0, 45)))
        qtrim(qs, c5, c3, base)
    # (iii) NextSeq
    n_ns = 800 if ctx.quick else 20000
    for _ in range(n_ns):
        base = rng.choice((33, 33, 64))
        n = rng.randint(0, 40)
        seq = "".join(rng.choice("ACGTGGGNg") for _ in range(n))
        if rng.random() < 0.5 and n:
            k = rng.randint(0, n)
            seq = seq[:k] + "G" * (n - k)
        qs = "".join(chr(min(126, base + rng.choice((2, 5, 10, 19, 20, 21, 30, 40)))) for _ in range(n))
        c = rng.choice((1, 10, 20, 21, 30))
        out = nextseq_trim_index(_Rec(seq, qs), c, base)
        add(f="nextseq", seq=codes(seq), q=codes(qs), a=0, b=c, base=base, out=[out])
    # (iv) command-line runs: reads after -q / --nextseq-trim and the reported count
    n_cli = 25 if ctx.quick else 400
    for k in range(n_cli):
        base = rng.choice((33, 33, 64))
        reads = []
        binned = rng.random() < 0.3            # identical (binned) quality strings, different bases: state must not leak between reads
        fixed_n = rng.randint(4, 20)
        fixed_q = chr(min(126, base + rng.choice((12, 25, 37))))
        for r in range(rng.randint(1, 9)):
            n = fixed_n if binned else rng.randint(0, 25)
            seq = "".join(rng.choice("ACGTG") for _ in range(n))
            if rng.random() < 0.4 and n:
                j = rng.randint(0, n)
                seq = seq[:j] + "G" * (n - j)
            qs = fixed_q * n if binned else "".join(chr(min(126, base + rng.choice((1, 3, 8, 10, 12, 20, 25, 35)))) for _ in range(n))
            reads.append((f"r{r}", seq, qs))
        ns = rng.choice((-1, -1, 10, 20))
        mode = rng.choice(("none", "3", "53")) if ns >= 0 else rng.choice(("3", "53"))
        argv = []
        c5 = c3 = 0
        if ns >= 0:
            argv += ["--nextseq-trim", str(ns)]
        if mode == "3":
            c3 = rng.choice((5, 10, 12, 20))
            argv += ["-q", str(c3)]
        elif mode == "53":
            c5, c3 = rng.choice((0, 5, 10, 15)), rng.choice((0, 5, 10, 20))
            argv += ["-q", f"{c5},{c3}"]
        if base == 64:
            argv += ["--quality-base", "64"]
        argv += ["--json", "rep.json", "-o", "out.fastq", "in.fastq"]
        res = run_cli(argv, {"in.fastq": fastq_bytes(reads)}, os.path.join(ctx.scratch, "cli"))
        if res.exit != 0 or res.json is None or "out.fastq" not in res.files:
            ctx.violation("CommandLineRunSucceeds", "C13:cli-run-failed",
                          dict(argv=argv, exit=res.exit, errors=res.errors[:3], exc=repr(res.exception)),
                          case=dict(kind="qrun", argv=argv, reads=reads))
            continue
        _, outs = parse_records(res.files["out.fastq"])
        add(f="qrun", argv=" ".join(argv),
            reads=[dict(seq=codes(s), q=codes(q)) for _, s, q in reads],
            outs=[dict(seq=codes(s), q=codes(q or "")) for _, s, q in outs],
            a=c5, b=c3, qt=(mode != "none"), ns=ns, base=base,
            reported=res.json["basepair_counts"]["quality_trimmed"] or 0)
    # (v) paired-end runs: -q applies to both mates unless -Q is given; reported per mate
    n_pe = 30 if ctx.quick else 300
    for k in range(n_pe):
        pbase = rng.choice((33, 33, 64))            # the quality base shifts the scale for both mates alike
        def mk(r):
            n = rng.randint(0, 20)
            seq = "".join(rng.choice("ACGTG") for _ in range(n))
            qs = "".join(chr(min(126, pbase + rng.choice((1, 3, 8, 10, 12, 20, 25, 35)))) for _ in range(n))
            return (f"p{r}", seq, qs)
        nr = rng.randint(1, 7)
        r1 = [mk(r) for r in range(nr)]
        r2 = [mk(r) for r in range(nr)]
        ns = rng.choice((-1, -1, 15))
        c5, c3 = rng.choice((0, 5, 10)), rng.choice((5, 10, 20))
        mode2 = rng.choice(("same", "Q", "Q0"))
        argv = ["-q", f"{c5},{c3}"]
        d5, d3, qt2 = c5, c3, True
        if mode2 == "Q":
            d5, d3 = rng.choice((0, 8)), rng.choice((6, 12, 25))
            argv += ["-Q", f"{d5},{d3}"]
        elif mode2 == "Q0":
            argv += ["-Q", "0"]
            qt2 = False
        if ns >= 0:
            argv += ["--nextseq-trim", str(ns)]
        if pbase == 64:
            argv += ["--quality-base", "64"]
        interleaved_out = rng.random() < 0.3
        argv += ["--json", "rep.json", "-o", "o1.fastq"] + (["--interleaved"] if interleaved_out else ["-p", "o2.fastq"])
        argv += ["i1.fastq", "i2.fastq"]
        res = run_cli(argv, {"i1.fastq": fastq_bytes(r1), "i2.fastq": fastq_bytes(r2)}, os.path.join(ctx.scratch, "cli"))
        if res.exit != 0 or res.json is None or "o1.fastq" not in res.files:
            ctx.violation("CommandLineRunSucceeds", "C13:cli-run-failed",
                          dict(argv=argv, exit=res.exit, errors=res.errors[:3], exc=repr(res.exception)))
            continue
        _, o1 = parse_records(res.files["o1.fastq"])
        if interleaved_out:
            o1, o2 = o1[0::2], o1[1::2]
        else:
            _, o2 = parse_records(res.files["o2.fastq"])
        bp = res.json["basepair_counts"]
        for reads, outs, a, b, qt, rep in ((r1, o1, c5, c3, True, bp["quality_trimmed_read1"]),
                                          (r2, o2, d5, d3, qt2, bp["quality_trimmed_read2"])):
            add(f="qrun", argv=" ".join(argv),
                reads=[dict(seq=codes(s_), q=codes(q)) for _, s_, q in reads],
                outs=[dict(seq=codes(s_), q=codes(q or "")) for _, s_, q in outs],
                a=a, b=b, qt=qt, ns=ns, base=pbase, reported=rep or 0)
        add(f="qsum", parts=[bp["quality_trimmed_read1"] or 0, bp["quality_trimmed_read2"] or 0],
            total=bp["quality_trimmed"] or 0)
    ctx.extra["event_counts"] = dict(small_scope=n_small, random=n_rand, nextseq=n_ns, cli=n_cli, cli_paired=n_pe)
    return ev


def run(ctx):
    ctx.mc("MC_QualTrim", "MC_QualTrim.cfg" if ctx.quick else "MC_QualTrim_thorough.cfg", coverage=True)
    ev = gen_events(ctx)
    res = ctx.validate("Trace_Fn", "Trace_Fn.cfg", ev)
    for i, clauses in res.items():
        e = ev[i]
        for c in clauses:
            ctx.violation(c, f"C13:{c}:{e['f']}", e, case=e)
    for e in (ev[0], ev[len(ev) // 3], ev[len(ev) // 2], ev[-1]):
        ctx.sample(e)
    ctx.assumptions += [
        "TLC/SANY and the Json module are trusted",
        "qualities are passed as character codes; the quality base is subtracted inside the specification",
        "small-scope hypothesis for the exhaustive part (bounds in MC_QualTrim*.cfg)",
    ]


def replay(ctx, path):
    import json
    with open(path) as f:
        rp = json.load(f)
    e = rp["observation"]
    from cutadapt.qualtrim import quality_trim_index, nextseq_trim_index
    s = lambda c: "".join(map(chr, c))
    if e.get("f") in ("qtrim", "qtrim3", "qtrim5"):
        e["out"] = list(quality_trim_index(s(e["q"]), e["a"], e["b"], e["base"]))
    elif e.get("f") == "nextseq":
        e["out"] = [nextseq_trim_index(_Rec(s(e["seq"]), s(e["q"])), e["b"], e["base"])]
    e["id"] = 0
    if "f" not in e:
        print("replay: observation is a failed command-line run:", e)
        ctx.violation(rp["clause"], rp["signature"], e)
        return
    res = ctx.validate("Trace_Fn", "Trace_Fn.cfg", [e])
    for c in res.get(0, []):
        ctx.violation(c, f"C13:{c}:{e['f']}", e, case=e)
