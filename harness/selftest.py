"""Binding demonstration (DESIGN 4.4): every trace specification must REJECT a corrupted observation.
Development tool (./check --selftest), not a MANIFEST check."""
import copy
import json
import os
import random


def main():
    from harness import core, vmp, runner_common as RC, gen_match as G
    from harness.cli_run import run_cli, fastq_bytes
    from harness.props import C06, C13, C14, C08
    ctx = core.Ctx("SELFTEST", "quick", 1)
    ok = True

    def expect(name, cond):
        nonlocal ok
        print(("ok   " if cond else "FAIL ") + name)
        ok &= bool(cond)

    # 1. runner: accept the genuine log, reject a corrupted chunk index, a dropped event, a swapped pair of events
    rng = random.Random(5)
    reads, _ = C06.make_reads(rng, 50)
    inputs = {"in1.fastq": fastq_bytes(reads)}
    argv = ["-j", "2", "--buffer-size", "900", "-a", C06.AD1, "-o", "out.fastq", "in1.fastq"]
    res, sched = RC.run_virtual(argv, inputs, os.path.join(ctx.scratch, "p"), vmp.RandomPolicy(3))
    nc = RC.count_chunks([inputs["in1.fastq"]], 900)
    good = RC.trace_record(0, sched.log, 2, nc, res.exit, ["none"])
    bad1 = copy.deepcopy(good); bad1["id"] = 1
    k = next(i for i, e in enumerate(bad1["events"]) if e["ev"] == "m_res")
    bad1["events"][k]["chunk"] += 1
    bad2 = copy.deepcopy(good); bad2["id"] = 2
    del bad2["events"][next(i for i, e in enumerate(bad2["events"]) if e["ev"] == "w_ask")]
    bad3 = copy.deepcopy(good); bad3["id"] = 3
    i = next(i for i, e in enumerate(bad3["events"]) if e["ev"] == "r_send")
    j = next(j for j, e in enumerate(bad3["events"]) if e["ev"] == "w_res")
    bad3["events"][i], bad3["events"][j] = bad3["events"][j], bad3["events"][i]      # result before the chunk was sent
    bad4 = copy.deepcopy(good); bad4["id"] = 4
    k = next(i for i, e in enumerate(bad4["events"]) if e["ev"] == "m_res" and e["cur0"] >= 0)
    bad4["events"][k]["cur0"] += 1
    v = RC.validate_traces(ctx, [good, bad1, bad2, bad3, bad4])
    expect("Trace_Runner accepts the recorded log", v[0] is None)
    expect("Trace_Runner rejects a corrupted chunk index", v[1] is not None)
    expect("Trace_Runner rejects a removed hook event", v[2] is not None)
    expect("Trace_Runner rejects two swapped events", v[3] is not None)
    expect("Trace_Runner rejects a corrupted writer position", v[4] is not None)
    # 2. spec -> code: a TLC behaviour with two steps swapped must diverge
    behs = RC.simulate_behaviours(ctx, "MC_Runner_sim.cfg", 1, depth=120, seed=11)
    beh = behs[0]
    r2, _, bs = C06.input_with_chunks(rng, 3)
    inp = {"in1.fastq": fastq_bytes(r2)}
    argv = ["-j", "2", "--buffer-size", str(bs), "-a", C06.AD1, "-o", "out.fastq", "in1.fastq"]
    steps, readies = RC.script_of(beh)
    pol = vmp.ScriptPolicy(steps, ready_lists=readies)
    par, sched = RC.run_virtual(argv, inp, os.path.join(ctx.scratch, "p"), pol)
    expect("replaying a TLC behaviour: no divergence", pol.mismatch is None and pol.ptr == len(steps))
    swapped = list(beh)
    a = next(i for i, l in enumerate(swapped) if l[0] == "RSend")
    b = next(i for i, l in enumerate(swapped) if l[0] == "WRes")
    swapped[a], swapped[b] = swapped[b], swapped[a]
    steps, readies = RC.script_of(swapped)
    pol = vmp.ScriptPolicy(steps, ready_lists=readies)
    par, sched = RC.run_virtual(argv, inp, os.path.join(ctx.scratch, "p"), pol)
    expect("replaying a behaviour with two steps swapped: divergence reported", pol.mismatch is not None)
    # 3. match events: corrupt rstart / errors
    cfg = G.make_config("Back", "AGATCGGAAG", __import__("fractions").Fraction(1, 10), 3)
    e = G.observe(cfg, "TTTTTTAGATCGGAAGTT", ["C01", "C02", "C07"]); e["id"] = 0
    e1 = copy.deepcopy(e); e1["id"] = 1; e1["res"][2] += 1
    e2 = copy.deepcopy(e); e2["id"] = 2; e2["res"][5] += 1
    e3 = copy.deepcopy(e); e3["id"] = 3; e3["found"] = False; e3["res"] = [0] * 6
    r = ctx.validate("Trace_Match", "Trace_Match.cfg", [e, e1, e2, e3])
    expect("Trace_Match accepts the recorded match", 0 not in r)
    expect("Trace_Match rejects a shifted rstart", 1 in r)
    expect("Trace_Match rejects a wrong error count", 2 in r)
    expect("Trace_Match rejects a suppressed match (C02, C07)", 3 in r)
    # 4. function events
    ev = dict(id=0, f="qtrim", q=[ord(c) for c in "IIII##"], a=0, b=10, base=33, out=[0, 4])
    ev2 = dict(ev, id=1, out=[0, 5])
    r = ctx.validate("Trace_Fn", "Trace_Fn.cfg", [ev, ev2])
    expect("Trace_Fn accepts the right interval and rejects a wrong one", 0 not in r and 1 in r)
    # 5. whole runs (pipeline family): corrupt an output record, a report figure, an info row, a recorded stage
    from harness import gen_run as GR
    C = dict(fmt="fastq", paired=False, demux="none", q="20", cut1=[2], info=True, action="trim", times=1, overlap=3,
             ads1=[dict(opt="a", seq="AGATCGGAAGAG", restr=None, name="ada")])
    r1 = [("rd0x", "ACGTACGTACGTTTAGATCGGAAGAGCC", "IIIIIIIIIIIIIIIIIIIIIIIIII##"), ("rd1x", "TTGACCATGGTACC", "IIIIIIIIIII###")]
    ev, sampler, _res = GR.observe_run(C, r1, [], os.path.join(ctx.scratch, "run"))
    ev["id"] = 0
    ev["want"] = ["report", "info"]

    def variant(i, fn):
        v = copy.deepcopy({k: x for k, x in ev.items() if k != "_blame"})
        v["id"] = i
        fn(v)
        return v
    vs = [ev,
          variant(1, lambda v: v["reads"][0]["obs"]["o1"].update(seq=v["reads"][0]["obs"]["o1"]["seq"][:-1], qual=v["reads"][0]["obs"]["o1"]["qual"][:-1])),
          variant(2, lambda v: v["report"].update(n_out=v["report"]["n_out"] + 1)),
          variant(3, lambda v: v["reads"][0]["obs"]["rows"][0].update(rs=v["reads"][0]["obs"]["rows"][0]["rs"] + 1)),
          variant(4, lambda v: [st.update(s1=st["s1"][:-1], q1=st["q1"][:-1]) for st in v["reads"][1]["obs"]["chain"] if st["l1"] == "qtrim"])]
    out = GR.validate_runs(ctx, vs, {i: sampler for i in range(5)})
    names = {i: {c for c, _k in out.get(i, [])} for i in range(5)}
    expect("Trace_Run accepts the recorded run", not names[0] - {"Info.MiddleIsWhatWasAligned.CoordinatesOfShortenedReadOnInputRead"})
    expect("Trace_Run rejects a shortened output record", {"Seq1", "Struct1"} & names[1])
    expect("Trace_Run rejects a wrong report figure", any(c.startswith("Report.") for c in names[2]))
    expect("Trace_Run rejects a shifted info-file coordinate", any(c.startswith("Info.") for c in names[3] - names[0]))
    expect("Trace_Run!Blame names the stage whose recorded output was altered (qtrim)",
           "qtrim" in set().union(*[set(x) for x in (vs[4].get("_blame") or {}).values()] or [set()]) and not (vs[0].get("_blame") or {}))
    import shutil
    shutil.rmtree(ctx.scratch, ignore_errors=True)
    print("SELFTEST", "PASSED" if ok else "FAILED")
    return 0 if ok else 1
