"""
Whole-run observations for the Pipeline reference model (Trace_Run.tla).

A configuration is a plain dict `C` (the generator's intent); `build_argv` renders it as a command
line, `model_cfg` as the specification's cfg record.  `observe_run` executes the real command line
in-process, samples the Locate oracle by recording every match_to call of the adapters the run
built, and extracts per-read observations from the output files, the info file and the reports.
"""
import json
import os
import re
from fractions import Fraction

from harness.cli_run import run_cli, parse_records, fastq_bytes, codes, reset_adapter_names

COMP = str.maketrans("ACGTacgtNnRYKMBDHVrykmbdhv", "TGCAtgcaNnYRMKVHDByrmkvhdb")


def revcomp(s):
    return s.translate(COMP)[::-1]


# ---------------------------------------------------------------- configuration -> argv
def adapter_arg(a):
    """a: dict(opt='a'|'g'|'b', seq, restr=None|'anchor'|'ni', rightmost, name, params:str, linked: (a1, a2))"""
    def one(x):
        s = x["seq"]
        if x.get("restr") == "anchor":
            s = ("^" + s) if x["opt"] == "g" else (s + "$")
        elif x.get("restr") == "ni":
            s = ("X" + s) if x["opt"] == "g" else (s + "X")
        ps = []
        if x.get("rightmost"):
            ps.append("rightmost")
        if x.get("params"):
            ps.append(x["params"])
        return s + "".join(";" + p for p in ps)
    if a.get("linked"):
        f, b = a["linked"]
        spec = one(f) + "..." + one(b)
    else:
        spec = one(a)
    if a.get("name"):
        spec = a["name"] + "=" + spec
    return spec


def tokens_of(template):
    """Split a rename/prefix/suffix template into tokens for the specification."""
    out = []
    for m in re.finditer(r"\{([^}]*)\}|([^{]+)", template.replace("\\t", "\t")):
        if m.group(1) is not None:
            k = m.group(1)
            side = 0
            if k.startswith("r1."):
                side, k = 1, k[3:]
            elif k.startswith("r2."):
                side, k = 2, k[3:]
            out.append(dict(k=k, v=[], side=side))
        else:
            out.append(dict(k="lit", v=codes(m.group(2)), side=0))
    return out


def build_argv(C):
    a = []
    for n in C.get("cut1", []):
        a += ["-u", str(n)]
    for n in C.get("cut2", []):
        a += ["-U", str(n)]
    if C.get("nextseq") is not None:
        a += ["--nextseq-trim", str(C["nextseq"])]
    if C.get("q"):
        a += ["-q", C["q"]]
    if C.get("Q"):
        a += ["-Q", C["Q"]]
    if C.get("qbase", 33) != 33:
        a += ["--quality-base", str(C["qbase"])]
    for ad in C.get("ads1", []):
        a += ["-" + (ad.get("_opt", ad["linked"][0]["opt"]) if ad.get("linked") else ad["opt"]), adapter_arg(ad)]
    for ad in C.get("ads2", []):
        a += ["-" + (ad.get("_opt", ad["linked"][0]["opt"]) if ad.get("linked") else ad["opt"]).upper(), adapter_arg(ad)]
    if C.get("ads1") or C.get("ads2"):
        a += ["--no-index"] if not C.get("index") else []
        if C.get("error_rate") is not None:
            a += ["-e", str(C["error_rate"])]
        if C.get("overlap") is not None:
            a += ["-O", str(C["overlap"])]
        if C.get("action", "trim") != "trim":
            a += ["--action", C["action"]]
        if C.get("times", 1) != 1:
            a += ["--times", str(C["times"])]
        if C.get("revcomp"):
            a += ["--revcomp"]
        if C.get("pairads"):
            a += ["--pair-adapters"]
        if C.get("noindels"):
            a += ["--no-indels"]
    if C.get("polya"):
        a += ["--poly-a"]
    if C.get("len1") is not None:
        a += ["--length", str(C["len1"])]
    if C.get("len2") is not None:
        a += ["-L", str(C["len2"])]
    if C.get("trimn"):
        a += ["--trim-n"]
    if C.get("lengthtag"):
        a += ["--length-tag", C["lengthtag"]]
    for s in C.get("strip", []):
        a += ["--strip-suffix", s]
    if C.get("prefix"):
        a += ["-x", C["prefix"]]
    if C.get("suffix"):
        a += ["-y", C["suffix"]]
    if C.get("rename"):
        a += ["--rename", C["rename"]]
    if C.get("zerocap"):
        a += ["--zero-cap"]
    if C.get("empty_A_file"):
        a += ["-A", "file:empty.fasta"]          # an adapter option that yields no adapter at all
    if C.get("fasta_noop"):
        a += ["--fasta"]          # every output of these runs is a named file: the option must not change anything
    if C.get("minlen") is not None:
        a += ["-m", C["minlen"]]
    if C.get("maxlen") is not None:
        a += ["-M", C["maxlen"]]
    if C.get("maxn") is not None:
        a += ["--max-n", C["maxn"][2]]
    if C.get("maxee") is not None:
        a += ["--max-ee", C["maxee"]]
    if C.get("maxaer") is not None:
        a += ["--max-aer", C["maxaer"]]
    if C.get("casava"):
        a += ["--discard-casava"]
    if C.get("dtrim"):
        a += ["--discard-trimmed"]
    if C.get("duntrim"):
        a += ["--discard-untrimmed"]
    if C.get("pairfilter"):
        a += ["--pair-filter", C["pairfilter"]]
    paired = C.get("paired")
    ext = ".fastq" if C.get("fmt", "fastq") == "fastq" else ".fasta"
    il = bool(C.get("interleaved")) and paired and C.get("demux", "none") == "none"
    two = paired and not il
    if il:
        a += ["--interleaved"]
    if C.get("tooshortout"):
        a += ["--too-short-output", ("tsI" if il else "ts1") + ext] + (["--too-short-paired-output", "ts2" + ext] if two else [])
    if C.get("toolongout"):
        a += ["--too-long-output", ("tlI" if il else "tl1") + ext] + (["--too-long-paired-output", "tl2" + ext] if two else [])
    if C.get("untrimout"):
        a += ["--untrimmed-output", ("unI" if il else "un1") + ext] + (["--untrimmed-paired-output", "un2" + ext] if two else [])
    if C.get("info"):
        a += ["--info-file", "info.tsv"]
    if C.get("aux"):
        a += ["--rest-file", "rest.txt", "--wildcard-file", "wc.txt"]
    demux = C.get("demux", "none")
    if demux == "normal":
        a += ["-o", "dm1-{name}" + ext] + (["-p", "dm2-{name}" + ext] if paired else [])
    elif demux == "combi":
        a += ["-o", "dm1-{name1}-{name2}" + ext, "-p", "dm2-{name1}-{name2}" + ext]
    else:
        a += ["-o", ("outI" if il else "out1") + ext] + (["-p", "out2" + ext] if two else [])
    a += ["--json", "rep.json"]
    if C.get("cores", 1) > 1:
        a += ["-j", str(C["cores"]), "--buffer-size", str(C.get("buffer_size", 700))]
    if C.get("perm_seed") is not None:
        # permute the option groups (C10: the order on the command line must not matter);
        # -u/-U values keep their relative order
        import random
        groups, i = [], 0
        while i < len(a):
            if a[i].startswith("-") and i + 1 < len(a) and not a[i + 1].startswith("-") or \
               (a[i].startswith("-") and i + 1 < len(a) and re.match(r"^-\d", a[i + 1])):
                groups.append(a[i: i + 2])
                i += 2
            else:
                groups.append(a[i: i + 1])
                i += 1
        fixed = [g for g in groups if g[0] in ("-u", "-U", "-a", "-g", "-b", "-A", "-G", "-B", "--strip-suffix")]
        free = [g for g in groups if g not in fixed]
        random.Random(C["perm_seed"]).shuffle(free)
        # interleave the fixed groups at random positions, keeping their relative order
        r = random.Random(C["perm_seed"] + 1)
        pos = sorted(r.randint(0, len(free)) for _ in fixed)
        out = []
        fi = 0
        for k in range(len(free) + 1):
            while fi < len(fixed) and pos[fi] == k:
                out.append(fixed[fi])
                fi += 1
            if k < len(free):
                out.append(free[k])
        a = [x for g in out for x in g]
    a += (["inI" + ext] if il else ["in1" + ext] + (["in2" + ext] if paired else []))
    return a


def parse_q(s):
    if s is None or s == "0":
        return None
    v = [int(x) for x in s.split(",")]
    return (0, v[0]) if len(v) == 1 else (v[0], v[1])


def limbs(x):
    """decimal string -> <<hi, lo>> of x * 10^12"""
    n = int(Fraction(x) * 10**12)
    return dict(on=True, hi=n // 10**6, lo=n % 10**6)


OFF3 = dict(on=False, hi=0, lo=0)


def parse_len(s, paired):
    """-m / -M value -> (has, v1, v2) with -1 for 'not given for this mate'."""
    if s is None:
        return False, -1, -1
    f = s.split(":")
    if len(f) == 1:
        return True, int(f[0]), (int(f[0]) if paired else -1)
    return True, (int(f[0]) if f[0] != "" else -1), (int(f[1]) if f[1] != "" else -1)


def model_cfg(C, ads1, ads2):
    """The specification's cfg record, by the *documented* routing rules."""
    paired = bool(C.get("paired"))
    fastq = C.get("fmt", "fastq") == "fastq"
    q1 = parse_q(C.get("q"))
    if C.get("Q") is not None:
        q2 = parse_q(C.get("Q"))           # -Q given: R2 has its own cutoffs ("0" disables)
    else:
        q2 = q1                           # -q applies to both reads unless -Q is given
    hasmin, min1, min2 = parse_len(C.get("minlen"), paired)
    hasmax, max1, max2 = parse_len(C.get("maxlen"), paired)
    mk = lambda q: dict(on=q is not None, c5=q[0] if q else 0, c3=q[1] if q else 0)
    l1 = C.get("len1")
    l2 = C.get("len2") if C.get("len2") is not None else l1      # --length on both unless -L is given
    rename = C.get("rename")
    cfg = dict(
        paired=paired,
        cut1=[n for n in C.get("cut1", []) if n != 0], cut2=[n for n in C.get("cut2", []) if n != 0],
        nextseq=C["nextseq"] if C.get("nextseq") is not None else -1,
        q1=mk(q1), q2=mk(q2 if paired else None), qbase=C.get("qbase", 33),
        ads1=ads1, ads2=ads2, action=C.get("action", "trim"), times=C.get("times", 1),
        revcomp=bool(C.get("revcomp")), pairads=bool(C.get("pairads")),
        rcsuffix=not rename,
        polya=bool(C.get("polya")),
        len1=dict(on=l1 is not None, n=l1 or 0), len2=dict(on=l2 is not None, n=l2 or 0),
        trimn=bool(C.get("trimn")), zerocap=bool(C.get("zerocap")) and fastq,
        lengthtag=codes(C.get("lengthtag") or ""), strip=[codes(s) for s in C.get("strip", [])],
        prefix=tokens_of(C.get("prefix") or ""), suffix=tokens_of(C.get("suffix") or ""),
        rename=tokens_of(rename) if rename and rename != "{header}" else [],
        hasmin=hasmin, minlen1=min1, minlen2=min2, hasmax=hasmax, maxlen1=max1, maxlen2=max2,
        maxn=(dict(on=True, a=C["maxn"][0], b=C["maxn"][1]) if C.get("maxn") is not None else dict(on=False, a=0, b=1)),
        maxee=(limbs(C["maxee"]) if C.get("maxee") is not None and fastq else OFF3),
        maxaer=(limbs(C["maxaer"]) if C.get("maxaer") is not None and fastq else OFF3),
        casava=bool(C.get("casava")), dtrim=bool(C.get("dtrim")), duntrim=bool(C.get("duntrim")),
        untrimout=bool(C.get("untrimout")), tooshortout=bool(C.get("tooshortout")), toolongout=bool(C.get("toolongout")),
        pairfilter=C.get("pairfilter") or "any",
        demux=C.get("demux", "none"),
    )
    return cfg


# ---------------------------------------------------------------- running and observing
class Sampler:
    """Records every match_to call of the single adapters (incl. the parts of linked ones)."""

    def __init__(self):
        self.calls = {}      # (id, seq) -> row
        self.by_id = {}
        self.desc1, self.desc2 = [], []
        self.index = False

    def install(self, adapters, adapters2):
        import cutadapt.adapters as A
        nid = [0]

        def wrap(single):
            i = nid[0]
            nid[0] += 1
            self.by_id[i] = single
            orig = single.match_to

            def rec(sequence, _orig=orig, _i=i):
                m = _orig(sequence)
                if not (self.index and self.indexed_group(_i) is not None):    # (a call from inside an index is not a look-up)
                    self.calls[(_i, sequence)] = self.row(_i, sequence, m)
                return m
            single.match_to = rec
            single._verif_orig = orig
            return i

        def describe(a):
            if isinstance(a, A.LinkedAdapter):
                f, b = wrap(a.front_adapter), wrap(a.back_adapter)
                i = nid[0]
                nid[0] += 1
                return dict(id=i, name=codes(a.name), cls="linked", f=f, b=b, freq=bool(a.front_required),
                            breq=bool(a.back_required), aseq=[])
            i = wrap(a)
            cls = "anywhere" if isinstance(a, A.AnywhereAdapter) else ("front" if isinstance(a, A.FrontAdapter) else "back")
            return dict(id=i, name=codes(a.name), cls=cls, f=-1, b=-1, freq=False, breq=False, aseq=codes(a.sequence))
        self.desc1 = [describe(a) for a in adapters]
        self.desc2 = [describe(a) for a in adapters2]

    @staticmethod
    def row(i, sequence, m):
        if m is None:
            return dict(ad=i, seq=codes(sequence), found=False, rs=0, re=0, score=0, errors=0)
        r = dict(ad=i, seq=codes(sequence), found=True, rs=m.rstart, re=m.rstop, score=m.score, errors=m.errors)
        r["as"] = m.astart
        r["ae"] = m.astop
        return r

    def indexed_group(self, i):
        """With indexing on, the members of the index group adapter i is looked up through (else None)."""
        if not self.index:
            return None
        import cutadapt.adapters as A
        a = self.by_id[i]
        for side, ds in ((1, self.desc1), (2, self.desc2)):
            singles = [self.by_id[d["id"]] for d in ds if d["cls"] != "linked"]
            if not any(x is a for x in singles) or len(singles) != len(ds):
                continue          # (sets that contain linked adapters are never indexed)
            for prefix in (True, False):
                members = [x for x in singles if A.AdapterIndex.is_acceptable(x, prefix=prefix)]
                if len(members) > 1 and any(x is a for x in members):
                    return prefix, members
        return None

    def ask(self, i, sequence):
        a = self.by_id[i]
        grp = self.indexed_group(i)
        if grp is not None:
            # R2 for indexed sets: what the index reports is the oracle (whether it is genuine is C08 / C01);
            # a fresh index per question, so that no state left by earlier look-ups can colour the answer
            import cutadapt.adapters as A
            fresh = (A.IndexedPrefixAdapters if grp[0] else A.IndexedSuffixAdapters)(grp[1])
            m = fresh.match_to(sequence)
            if m is not None and m.adapter is not a:
                m = None
            r = self.row(i, sequence, m)
            self.calls[(i, sequence)] = r
            return r
        m = a._verif_orig(sequence)
        r = self.row(i, sequence, m)
        self.calls[(i, sequence)] = r
        return r


def observe_run(C, reads1, reads2, workdir):
    """Returns (event dict without id, sampler) or raises on harness problems."""
    import cutadapt.cli as cli
    paired = bool(C.get("paired"))
    fastq = C.get("fmt", "fastq") == "fastq"
    ext = ".fastq" if fastq else ".fasta"
    argv = build_argv(C)

    def as_bytes(recs):
        return fastq_bytes([(n, s, q if fastq else None) for n, s, q in recs])
    il = bool(C.get("interleaved")) and paired and C.get("demux", "none") == "none"
    if il:
        inputs = {"inI" + ext: as_bytes([r for pair in zip(reads1, reads2) for r in pair])}
    else:
        inputs = {"in1" + ext: as_bytes(reads1)}
        if paired:
            inputs["in2" + ext] = as_bytes(reads2)
    if C.get("empty_A_file"):
        inputs["empty.fasta"] = b""
    sampler = Sampler()
    sampler.index = bool(C.get("index"))
    orig_afa = cli.adapters_from_args

    def afa(args):
        ads, ads2 = orig_afa(args)
        sampler.install(ads, ads2)
        return ads, ads2
    cli.adapters_from_args = afa
    from harness import stages
    recorder = stages.Recorder()
    orig_mp = cli.make_pipeline_from_args

    def mp(*a, **kw):
        pl = orig_mp(*a, **kw)
        recorder.instrument(pl)
        return pl
    cli.make_pipeline_from_args = mp
    try:
        # the Locate oracle is always sampled in a one-core run (match_to is a pure function of the
        # adapter and the sequence); with cores > 1 the observed run is a second, unwrapped execution
        # under the virtual scheduler
        serial_C = dict(C)
        serial_C.pop("cores", None)
        res = run_cli(build_argv(serial_C), inputs, workdir)
    finally:
        cli.adapters_from_args = orig_afa
        cli.make_pipeline_from_args = orig_mp
    if C.get("cores", 1) > 1 and res.exit == 0 and res.exception is None:
        from harness import vmp
        import random as _r
        pol = vmp.RandomPolicy(C.get("sched_seed", 0), C.get("sched_weights"), ready_subsets=True)
        res2, sched = vmp.run_virtual(lambda: run_cli(argv, inputs, workdir), pol)
        if isinstance(res2, Exception) or sched.deadlock:
            ev = dict(argv=" ".join(argv), exit=-1, failed=dict(exit=-1, errors=[], exc=f"deadlock/exception under virtual scheduler: {sched.deadlock} {res2!r}"))
            return ev, sampler, res
        res = res2
    ev = dict(argv=" ".join(argv), exit=res.exit)
    if res.exit != 0 or res.exception is not None or res.json is None:
        ev["failed"] = dict(exit=res.exit, errors=res.errors[:3], exc=repr(res.exception), site=getattr(res, "crash_site", ""))
        if not (ev["failed"]["site"] == "report.py:as_json" and isinstance(res.exception, AssertionError) and res.files):
            return ev, sampler, res
        # The program's own conservation assertion failed while the report was being built: the run itself is
        # over and its output files are complete.  The crash is reported (by C04); the files are still judged
        # read by read, without the report clauses, so that the check that owns the deviating stage sees it.
        ev["report_crash"] = ev.pop("failed")
        ev["exit"] = 0
    # The model's adapter lists are those of the command line (ranks, "the adapter given first", names by
    # position); the built objects only supply class and Locate oracle.  If the program built a different
    # number of adapters than were given (e.g. repeated adapters merged), every given adapter is mapped to the
    # built object with the same class and sequence.
    def as_given(given, descs):
        if len(given) == len(descs) or any(a.get("linked") for a in given):
            return descs
        out = []
        for pos, a in enumerate(given):
            hit = [d for d in descs if d["cls"] != "linked" and chr_seq(d["aseq"]) == a["seq"].upper()
                   and d["cls"] == {"a": "back", "g": "front", "b": "anywhere"}[a["opt"]]]
            if not hit:
                return descs
            out.append(dict(hit[0], name=codes(a.get("name") or str(pos + 1))))
        return out
    chr_seq = lambda cs: "".join(map(chr, cs))
    ev["adapters_built_differ_from_given"] = len(C.get("ads1", [])) != len(sampler.desc1) or len(C.get("ads2", [])) != len(sampler.desc2)
    cfg = model_cfg(C, as_given(C.get("ads1", []), sampler.desc1), as_given(C.get("ads2", []), sampler.desc2))
    # ---- output files -> per-read observations
    roles = {}
    for fname, data in res.files.items():
        if fname.endswith(".tsv") or fname.endswith(".txt"):
            continue
        m = re.match(r"^(out|ts|tl|un)([12I])\.", fname)
        if m:
            role = {"out": "out", "ts": "too_short", "tl": "too_long", "un": "untrimmed"}[m.group(1)]
            roles[fname] = (role, 0 if m.group(2) == "I" else int(m.group(2)), None, None)
            continue
        m = re.match(r"^dm([12])-(.*?)(?:-(.*))?\.fast[aq]$", fname)
        if m:
            n1, n2 = m.group(2), m.group(3)
            # {name}: the file "unknown" takes the reads without match; {name1}/{name2}: every file is a
            # combination, "unknown" standing for "no match on that read"
            role = "demux_unknown" if (n1 == "unknown" and n2 is None) else "demux"
            roles[fname] = (role, int(m.group(1)), n1, n2)
    idre = re.compile(r"rd(\d+)x")
    found = {1: {}, 2: {}}
    counts = {1: {}, 2: {}}
    files_written = {1: 0, 2: 0}
    files_bp = {1: 0, 2: 0}
    for fname, (role, side, n1, n2) in sorted(roles.items()):
        try:
            fmt, recs = parse_records(res.files[fname] or b"")
        except ValueError as ex:
            # an output file that is not a sequence of complete records is an observation, not a harness problem
            ev["failed"] = dict(exit=-3, errors=[f"output file {fname} is not well-formed: {ex}"], exc="garbled output",
                                head=(res.files[fname] or b"")[:300].decode("latin-1"))
            return ev, sampler, res
        if side == 0:
            # interleaved file: records alternate R1, R2; position = index of the pair
            if len(recs) % 2:
                interleave_odd = True
            for pos2, (name, seq, qual) in enumerate(recs):
                sd = 1 + pos2 % 2
                m = idre.search(name)
                k = int(m.group(1)) if m else -1
                counts[sd][k] = counts[sd].get(k, 0) + 1
                found[sd][k] = dict(role=role, fname=fname.replace("I", str(sd), 1), pos=pos2 // 2, name=name, seq=seq, qual=qual or "", n1=None, n2=None)
                if role == "out":
                    files_written[sd] += 1
                    files_bp[sd] += len(seq)
            continue
        for pos, (name, seq, qual) in enumerate(recs):
            m = idre.search(name)
            k = int(m.group(1)) if m else -1
            counts[side][k] = counts[side].get(k, 0) + 1
            found[side][k] = dict(role=role, fname=fname, pos=pos, name=name, seq=seq, qual=qual or "", n1=n1, n2=n2)
            if role in ("out", "demux", "demux_unknown") or (role == "untrimmed" and cfg["demux"] != "none"):
                files_written[side] += 1
                files_bp[side] += len(seq)
    # ---- demultiplexing (C15): which files exist, and the twin run without demultiplexing
    if cfg["demux"] != "none":
        files = {1: [], 2: []}
        for fname, (role, side, n1, n2) in sorted(roles.items()):
            if role in ("demux", "demux_unknown") and side in (1, 2):
                files[side].append([codes(n1 or ""), codes(n2 or "")])
        dmx = dict(files1=files[1], files2=files[2], twin=False, main1=[], demux1=[], main2=[], demux2=[])
        if not (C.get("duntrim") or C.get("untrimout") or C.get("dtrim")):
            twinC = {k: v for k, v in C.items() if k not in ("cores", "buffer_size", "sched_seed", "sched_weights")}
            twinC["demux"] = "none"
            tw = run_cli(build_argv(twinC), inputs, workdir + "-twin")
            if tw.exit == 0 and tw.exception is None:
                def recs_of(data):
                    return [[codes(n), codes(sq), codes(q or "")] for n, sq, q in parse_records(data or b"")[1]]
                try:
                    dmx["main1"] = sorted(recs_of(tw.files.get("out1" + ext)))
                    dmx["main2"] = sorted(recs_of(tw.files.get("out2" + ext))) if paired else []
                    dmx["demux1"] = sorted(r for f, (role, side, _a, _b) in roles.items() if side == 1 and role in ("demux", "demux_unknown")
                                           for r in recs_of(res.files[f]))
                    dmx["demux2"] = sorted(r for f, (role, side, _a, _b) in roles.items() if side == 2 and role in ("demux", "demux_unknown")
                                           for r in recs_of(res.files[f]))
                    dmx["twin"] = True
                except ValueError:
                    pass
            else:
                ev["twin_failed"] = dict(exit=tw.exit, errors=tw.errors[:2], exc=repr(tw.exception))
        ev["dmx"] = dmx
    # ---- info file
    rows_by_read = {}
    if C.get("info"):
        text = (res.files.get("info.tsv") or b"").decode("latin-1")
        for line in text.split("\n"):
            if line == "":
                continue
            f = line.split("\t")
            m = idre.search(f[0])
            k = int(m.group(1)) if m else -1
            if f[1] == "-1":
                row = dict(name=codes(f[0]), errors=-1, rs=0, re=0, before=codes(f[2]), mid=[], after=[], adname=[],
                           qb=codes(f[3] if len(f) > 3 else ""), qm=[], qa=[], rc=[])
            else:
                f += [""] * (12 - len(f))
                row = dict(name=codes(f[0]), errors=int(f[1]), rs=int(f[2]), re=int(f[3]), before=codes(f[4]), mid=codes(f[5]),
                           after=codes(f[6]), adname=codes(f[7]), qb=codes(f[8]), qm=codes(f[9]), qa=codes(f[10]), rc=codes(f[11]))
            rows_by_read.setdefault(k, []).append(row)
    # ---- rest / wildcard files
    aux_by_read = {"rest": {}, "wild": {}}
    if C.get("aux"):
        for key, fname in (("rest", "rest.txt"), ("wild", "wc.txt")):
            text = (res.files.get(fname) or b"").decode("latin-1")
            for line in text.split("\n"):
                if line == "":
                    continue
                first, _, nm = line.partition(" ")
                m = idre.search(nm)
                k = int(m.group(1)) if m else -1
                aux_by_read[key].setdefault(k, []).append([codes(first), codes(nm)])
    # ---- per read
    blank = dict(name=[], seq=[], qual=[])
    reads = []
    all_seqs_upper = None
    for k, r1 in enumerate(reads1):
        r2 = reads2[k] if paired else None
        in1 = dict(name=codes(r1[0]), seq=codes(r1[1]), qual=codes(r1[2]) if fastq else [])
        in2 = dict(name=codes(r2[0]), seq=codes(r2[1]), qual=codes(r2[2]) if fastq else []) if paired else blank
        f1 = found[1].get(k)
        f2 = found[2].get(k)
        ob = dict(dest=f1["role"] if f1 else "none", occ=counts[1].get(k, 0), occ2=counts[2].get(k, 0),
                  o1=dict(name=codes(f1["name"]), seq=codes(f1["seq"]), qual=codes(f1["qual"])) if f1 else blank,
                  o2=dict(name=codes(f2["name"]), seq=codes(f2["seq"]), qual=codes(f2["qual"])) if f2 else blank,
                  dest2=f2["role"] if f2 else "none",
                  pos1=[f1["fname"].replace("1", "#", 1), f1["pos"]] if f1 else ["", -1],
                  pos2=[f2["fname"].replace("2", "#", 1), f2["pos"]] if f2 else ["", -1],
                  demux1=codes(f1["n1"]) if f1 and f1["n1"] and f1["n1"] != "unknown" else [],
                  demux2=codes(f1["n2"]) if f1 and f1["n2"] and f1["n2"] != "unknown" else [],
                  rows=rows_by_read.get(k, []), rest=aux_by_read["rest"].get(k, []), wild=aux_by_read["wild"].get(k, []),
                  chain=recorder.chains.get(k, []) if recorder.ok else [])
        # table rows related to this read: searched sequences that are substrings of the read or its reverse complement
        keys = [r1[1].upper(), revcomp(r1[1]).upper()] + ([r2[1].upper(), revcomp(r2[1]).upper()] if paired else [])
        table = [row for (i, s), row in sampler.calls.items() if any(s.upper() in kk for kk in keys)]
        reads.append(dict(in1=in1, in2=in2, table=table, obs=ob))
    # ---- report
    j = res.json
    if j is None:          # (report_crash)
        zero = {c: -1 for c in ("too_short", "too_long", "too_many_n", "too_many_expected_errors", "too_high_average_error_rate",
                                "casava_filtered", "discard_trimmed", "discard_untrimmed")}
        ev.update(cfg=cfg, reads=reads, stats1=[], stats2=[],
                  report=dict(n_in=-1, n_out=-1, filtered=zero, filtered_sum=0, bp_in1=-1, bp_in2=0, bp_out1=-1, bp_out2=0,
                              files_written=files_written[1], files_bp1=files_bp[1], files_bp2=files_bp[2] if paired else 0,
                              with1=-1, with2=-1, pa1=-1, pa2=-1, qt1=-1, qt2=-1, rc=-1, text_ok=True, minimal_ok=True))
        return ev, sampler, res
    rc = j["read_counts"]
    bp = j["basepair_counts"]
    filt = {k: (-1 if v is None else v) for k, v in rc["filtered"].items()}
    for c in ("too_short", "too_long", "too_many_n", "too_many_expected_errors", "too_high_average_error_rate",
              "casava_filtered", "discard_trimmed", "discard_untrimmed"):
        filt.setdefault(c, -1)
    nn = lambda v: -1 if v is None else v
    report = dict(n_in=rc["input"], n_out=rc["output"], filtered=filt, filtered_sum=sum(v for v in filt.values() if v > 0),
                  bp_in1=bp["input_read1"], bp_in2=nn(bp["input_read2"]) if paired else 0,
                  bp_out1=bp["output_read1"], bp_out2=nn(bp["output_read2"]) if paired else 0,
                  files_written=files_written[1], files_bp1=files_bp[1], files_bp2=files_bp[2] if paired else 0,
                  with1=nn(rc["read1_with_adapter"]), with2=nn(rc["read2_with_adapter"]),
                  pa1=nn(bp["poly_a_trimmed_read1"]), pa2=nn(bp["poly_a_trimmed_read2"]),
                  qt1=nn(bp["quality_trimmed_read1"]), qt2=nn(bp["quality_trimmed_read2"]),
                  rc=nn(rc["reverse_complemented"]),
                  text_ok=text_report_ok(res.report, j), minimal_ok=True)
    if C.get("_minimal"):
        # the same command once more with --report=minimal (one core): its figures against its own JSON report
        mC = {k: v for k, v in C.items() if k not in ("cores", "buffer_size", "sched_seed", "sched_weights", "perm_seed")}
        mres = run_cli(["--report=minimal"] + build_argv(mC), inputs, workdir + "-minimal")
        report["minimal_ok"] = bool(mres.exit == 0 and mres.exception is None and mres.json is not None
                                    and minimal_report_ok(mres.report, mres.json, paired))
    ev.update(cfg=cfg, reads=reads, report=report)
    ev["stats1"] = adapter_stats(j.get("adapters_read1") or [], sampler.desc1, sampler)
    ev["stats2"] = adapter_stats(j.get("adapters_read2") or [], sampler.desc2, sampler) if paired else []
    return ev, sampler, res


def adapter_stats(jlist, descs, sampler):
    """JSON adapters_read1/2 -> observation records for the C20 clauses."""
    out = []
    for d, a in zip(descs, jlist):
        def end(x, part_id):
            if x is None:
                return False, 0, [], [0, 0, 0, 0, 0], [], 0, 1, 0
            hist = []
            for row in x["trimmed_lengths"]:
                for errs, cnt in enumerate(row["counts"]):
                    if cnt:
                        hist.append([row["len"], errs, cnt])
            adj = x.get("adjacent_bases")
            adjl = [adj.get(b, 0) for b in ("A", "C", "G", "T", "")] if adj else [0, 0, 0, 0, 0]
            # the maximum error rate is the one the adapter was built with (not the figure the report prints)
            ad_obj = sampler.by_id.get(part_id)
            f = float(ad_obj.max_error_rate) if ad_obj is not None and hasattr(ad_obj, "max_error_rate") else x["error_rate"]
            rate = Fraction(repr(f)).limit_denominator(1000)
            seq = x["sequence"]
            eff = len(seq) - seq.count("N") if any(c not in "ACGT" for c in seq) else len(seq)
            ranges = list(x["error_lengths"] or [])
            # R3: keep the ranges clause only where double and exact arithmetic agree for every length
            if any(int(f * L) != (rate.numerator * L) // rate.denominator for L in range(eff + 1)):
                ranges = []
            return True, x["matches"], hist, adjl, ranges, rate.numerator, rate.denominator, eff
        linked = d["cls"] == "linked"
        fp, fm, fh, _fa, fr, fnum, fden, feff = end(a["five_prime_end"], d["f"] if linked else d["id"])
        bp_, bm, bh, ba, br, bnum, bden, beff = end(a["three_prime_end"], d["b"] if linked else d["id"])
        out.append(dict(id=d["id"], name=codes(a["name"]), fpresent=fp, fmatches=fm, fhist=fh, bpresent=bp_, bmatches=bm, bhist=bh,
                        badj=ba, total=a["total_matches"], onrc=-1 if a["on_reverse_complement"] is None else a["on_reverse_complement"],
                        franges=fr, fnum=fnum, fden=fden, feff=feff, branges=br, bnum=bnum, bden=bden, beff=beff))
    return out


def minimal_report_ok(text, j, paired):
    """--report=minimal: one header line and one line of figures; every column this harness knows must repeat
    the JSON figure (columns are found by their header name, unknown columns are not interpreted)."""
    lines = [ln for ln in (text or "").split("\n") if "\t" in ln]
    if len(lines) < 2 or not lines[0].startswith("status"):
        return False
    row = dict(zip(lines[0].split("\t"), lines[1].split("\t")))
    rc, bp = j["read_counts"], j["basepair_counts"]
    z = lambda v: 0 if v is None else v
    want = {"in_reads": rc["input"], "in_bp": bp["input"], "too_short": z(rc["filtered"].get("too_short")),
            "too_long": z(rc["filtered"].get("too_long")), "too_many_n": z(rc["filtered"].get("too_many_n")),
            "out_reads": rc["output"], "w/adapters": z(rc["read1_with_adapter"]),
            "qualtrim_bp": z(bp["quality_trimmed_read1"]), "out_bp": bp["output_read1"]}
    if paired:
        want.update({"w/adapters2": z(rc["read2_with_adapter"]), "qualtrim2_bp": z(bp["quality_trimmed_read2"]),
                     "out2_bp": z(bp["output_read2"])})
    try:
        return all(k in row and int(row[k]) == v for k, v in want.items())
    except ValueError:
        return False


def text_report_ok(text, j):
    """The 'Read fate breakdown' and totals of the text report repeat the JSON figures."""
    if not text or "No reads processed" in text:
        return True
    num = lambda s: int(s.replace(",", ""))
    rc = j["read_counts"]
    ok = True
    m = re.search(r"Total (?:reads|read pairs) processed:\s+([\d,]+)", text)
    ok &= bool(m) and num(m.group(1)) == rc["input"]
    m = re.search(r"(?:Reads|Pairs) written \(passing filters\):\s+([\d,]+)", text)
    ok &= bool(m) and num(m.group(1)) == rc["output"]
    desc = {"too_short": "that were too short", "too_long": "that were too long", "too_many_n": "with too many N",
            "too_many_expected_errors": "with too many exp. errors", "too_high_average_error_rate": "with too high error rate",
            "casava_filtered": "failed CASAVA filter",
            "discard_trimmed": "discarded as trimmed", "discard_untrimmed": "discarded as untrimmed"}
    # every filter category the JSON report counts appears in the text report with the same figure (categories
    # this harness has no label for are taken from the JSON figure), and the text figures add up:
    # processed = written + sum of the categories.  Lines the harness does not know (additional summary lines
    # a later version may print) are not interpreted.
    total = 0
    for k, v in rc["filtered"].items():
        if v is None:
            continue
        if k in desc:
            m = re.search(r"(?:Reads|Pairs) " + re.escape(desc[k]) + r":\s+([\d,]+)", text)
            ok &= bool(m) and num(m.group(1)) == v
            total += num(m.group(1)) if m else 0
        else:
            total += v
    mi = re.search(r"Total (?:reads|read pairs) processed:\s+([\d,]+)", text)
    mo = re.search(r"(?:Reads|Pairs) written \(passing filters\):\s+([\d,]+)", text)
    ok &= bool(mi) and bool(mo) and num(mi.group(1)) == num(mo.group(1)) + total
    return bool(ok)


# ---------------------------------------------------------------- validation with the MISS loop
RE_MISS = re.compile(r'<<"MISS", (\d+), (\d+), (\d+), <<([\d, ]*)>>>>')
RE_VIOL = re.compile(r'<<"VIOL", (\d+), "([^"]*)"(?:, (\d+))?>>')
RE_BLAME = re.compile(r'<<"BLAME", (\d+), (\d+), "([a-z]+)">>')


def validate_runs(ctx, events, samplers, shards=8, max_rounds=4):
    """events: list with 'id'.  Returns {id: [(clause, read index or None)]}.  Handles MISS rounds."""
    from harness import tlc
    from concurrent.futures import ThreadPoolExecutor
    pending = list(events)
    result = {}
    for rnd in range(max_rounds):
        if not pending:
            break
        n = max(1, min(shards, (len(pending) + 5) // 6))
        parts = [pending[i::n] for i in range(n)]

        def run(i):
            part = parts[i]
            path = os.path.join(ctx.scratch, f"runs-{rnd}-{i}.ndjson")
            with open(path, "w") as f:
                for e in part:
                    f.write(json.dumps({k: e[k] for k in ("id", "want", "cfg", "reads", "report", "stats1", "stats2", "dmx") if k in e},
                                       separators=(",", ":")) + "\n")
            r = tlc.model_check("Trace_Run", "Trace_Run.cfg", ctx.scratch, workers=1, env={"TRACE_FILE": path},
                                timeout=2400, xmx="3g")
            if r["states"] != len(part) + 1 or r["violated"]:
                raise tlc.TLCFailure(f"Trace_Run consumed {r['states'] - 1} of {len(part)} runs:\n{r['out'][-3000:]}")
            os.unlink(path)
            return r
        with ThreadPoolExecutor(n) as ex:
            outs = list(ex.map(run, range(n)))
        missing = {}
        viols = {}
        blames = {}
        for r in outs:
            ctx.states += r["states"]
            ctx.transitions += r["transitions"]
            for eid, k, ad, seq in RE_MISS.findall(r["nout"]):
                s = "".join(chr(int(x)) for x in seq.split(",") if x.strip())
                missing.setdefault(int(eid), set()).add((int(k), int(ad), s))
            for eid, clause, k in RE_VIOL.findall(r["nout"]):
                viols.setdefault(int(eid), set()).add((clause, int(k) if k else None))
            for eid, k, lab in RE_BLAME.findall(r["nout"]):
                blames.setdefault(int(eid), {}).setdefault(int(k), set()).add(lab)
        nxt = []
        for e in pending:
            if e["id"] in missing:
                for k, ad, s in missing[e["id"]]:
                    row = samplers[e["id"]].ask(ad, s)
                    e["reads"][k - 1]["table"].append(row)
                nxt.append(e)
            else:
                result[e["id"]] = sorted(viols.get(e["id"], []), key=str)
                e["_blame"] = {k: sorted(v) for k, v in blames.get(e["id"], {}).items()}
        pending = nxt
    if pending:
        raise RuntimeError(f"Locate table still incomplete after {max_rounds} rounds for runs {[e['id'] for e in pending]}")
    ctx.traces += len(events)
    return result
