"""Generic check body of the pipeline-family properties."""
import json

from harness import run_family as RF

# clause of Trace_Run -> (property clause name) per property; clauses not listed are ignored by that property
CLAUSES = {
    "C03": {"Seq1": "OutputIsTheModelSlice", "Seq2": "OutputIsTheModelSlice", "Struct1": "SeqIsAlignedSliceQualSameSlice",
            "Struct2": "SeqIsAlignedSliceQualSameSlice"},
    "C09": {"Seq1": "TrimmedReadFollowsBestOfRoundsLinked", "Seq2": "TrimmedReadFollowsBestOfRoundsLinked",
            "Name1": "AdapterNameOfLastMatch", "Name2": "AdapterNameOfLastMatch",
            "Info.RowsInMatchOrder": "InfoRowsOnePerRound", "Info.AdapterNameAndSuffix": "InfoRowsNameTheAppliedAdapter",
            "Info.NoMatchRow": "UntouchedWhenNothingOrRequiredPartMissing", "Dest": "CountsAsTrimmedOnlyIfAllRequiredFound",
            "Report.WithAdapters": "CountsAsTrimmedOnlyIfAllRequiredFound"},
    "C10": {"Stages.DocumentedOrder": "ModifiersActInDocumentedOrder", "Seq1": "OutputEqualsComposition", "Seq2": "OutputEqualsComposition", "Name1": "NamesEqualComposition",
            "Name2": "NamesEqualComposition", "Dest": "FiltersSeeFullyModifiedRead"},
    "C11": {"Dest": "FirstApplicableFilterWins", "Fate": "FirstApplicableFilterWins", "Occurrences": "OneDestinationPerRead",
            "Occ.AtMostOnce": "OneDestinationPerRead"},
    "C05": {"PairSync": "SameCountSameOrderRecordKFromSamePair", "Dest": "PairDecision", "Seq1": "PairAdaptersBothOrNeither",
            "Seq2": "PairAdaptersBothOrNeither", "Occurrences": "PairKeptOrRedirectedAsUnit",
            "DemuxFile": "PairAdaptersSameRank", "Name1": "PairAdaptersSameRank", "Name2": "PairAdaptersSameRank",
            "Report.WithAdapters": "PairAdaptersBothOrNeither"},
    "C15": {"Demux.FileForEveryName": "FileForEveryNameEvenIfEmpty", "Demux.MultisetEqualsPlainRun": "MultisetEqualsPlainRunOfTheSameCommand",
            "DemuxFile": "FileOfLastMatchName", "Dest": "UnknownOrUntrimmedOrNowhere", "PairSync": "UnknownOrUntrimmedOrNowhere", "Occurrences": "MultisetEqualsUndemultiplexedRun"},
    "C16": {"Seq1": "KeepsStrictlyBetterOrientation", "Seq2": "KeepsStrictlyBetterOrientation", "Name1": "NameMarked",
            "Name2": "NameMarked", "Report.ReverseComplemented": "CountedAsReverseComplemented", "Info.RcColumn": "NameMarked",
            "Dest": "LaterStagesUseChosenOrientation"},
    "C17": {c: c.split(".", 1)[1] for c in ("Info.RowForEveryInputRead", "Info.NoMatchRow", "Info.RowsInMatchOrder",
            "Info.AdapterNameAndSuffix", "Info.FieldsConcatenateToInput", "Info.QualitiesSplitAlike", "Info.MiddleIsCoordinates",
            "Info.MiddleIsWhatWasAligned", "Info.RcColumn",
            "Info.MiddleIsWhatWasAligned.CoordinatesOfShortenedReadOnInputRead",
            "Info.MiddleIsWhatWasAligned.PairedRevcompRowsFromR1")},
    "C04": {"Occurrences": "EachReadExactlyOneFate", "Fate": "EachReadExactlyOneFate", "Occ.AtMostOnce": "NeverDuplicated"},
}
CLAUSES["C20"] = {}
for _side in ("Stats1.", "Stats2."):
    for _c in ("MatchesEqualTally", "HistogramByLengthAndErrors", "AdjacentBases", "OnReverseComplementCount",
               "AllowedErrorsAreFloorOfLTimesRate"):
        CLAUSES["C20"][_side + _c] = _c + ("(R2)" if _side == "Stats2." else "")
for _c in ("QualityTrimmedIsSumOverReads", "PolyATrimmedIsSumOverReads", "WithAdaptersIsCountOverReads"):
    CLAUSES["C04"]["Report." + _c] = "Report" + _c
for _c in ("InputCount", "Conservation", "WrittenCount", "WrittenMatchesFiles", "WrittenBasePairs", "InputBasePairs",
           "WithAdapters", "QualityTrimmed", "PolyATrimmed", "TextFateEqualsJson", "MinimalEqualsJson"):      # (the reverse-complemented count is C16's)
    CLAUSES["C04"]["Report." + _c] = "Report" + _c


# ---- blame filter ---------------------------------------------------------------------------------------------
# Trace_Run!Blame names, per read, the modifier stages of the recorded one-core chain that deviate locally from
# their specification.  Each stage is owned by the properties whose statement is about it; a check does not report
# a model-dependent clause on a read whose deviation is explained by stages that only other properties own
# (that deviation is theirs to report).  Clauses that compare observations with observations are never filtered.
OWNERS = {
    "cut": {"C10"}, "nextseq": {"C13"}, "qtrim": {"C13"}, "qparams": {"C10"}, "polya": {"C14"}, "trimn": {"C14"},
    "shorten": {"C10"}, "zerocap": {"C03", "C10"}, "name": {"C10"},
    "orient": {"C16"}, "choice": {"C09", "C05"}, "action": {"C03"}, "adapter": {"C03", "C05", "C09", "C16"},
    "record": {"C05", "C09", "C15", "C16", "C17", "C20"},
    "stages": {"C10"},                         # a modifier the options ask for is missing, or one is superfluous
    "filter": {"C05", "C11", "C15"},         # every modifier conforms locally but the destination differs: filters / sinks
}
# a crash (uncaught exception) is reported by the checks of the properties anchored in the file that raised it;
# a crash raised elsewhere (or of unknown origin) is reported by every check
CRASH_OWNERS = {
    "modifiers.py": {"C03", "C05", "C09", "C10", "C16"}, "adapters.py": {"C03", "C09", "C17", "C20"},
    "steps.py": {"C04", "C05", "C11", "C15", "C17"}, "report.py": {"C04", "C20"}, "statistics.py": {"C04", "C20"},
    "predicates.py": {"C11"}, "pipeline.py": {"C10", "C04"}, "info.pyx": {"C17"},
}
OBSERVATION_ONLY = {"Report.QualityTrimmedIsSumOverReads", "Report.PolyATrimmedIsSumOverReads", "Report.WithAdaptersIsCountOverReads",
                    "Occ.AtMostOnce", "Stages.DocumentedOrder", "Struct1", "Struct2", "PairSync", "Report.InputCount", "Report.Conservation", "Report.WrittenMatchesFiles",
                    "Report.InputBasePairs", "Report.TextFateEqualsJson", "Report.MinimalEqualsJson",
                    "Demux.FileForEveryName", "Demux.MultisetEqualsPlainRun", "Info.RowForEveryInputRead",
                    "Info.MiddleIsCoordinates", "Info.QualitiesSplitAlike"}


def explained_elsewhere(pid, e, clause, k):
    """True if the deviation behind (clause, read k) of run e is explained by stages owned by other properties only."""
    if clause in OBSERVATION_ONLY:
        return False
    blame = e.get("_blame") or {}
    run_level = k is None or clause.startswith(("Stats", "Report.", "Demux."))     # (k is an adapter index there, or absent)
    labs = (set().union(*[set(v) for v in blame.values()]) if blame else set()) if run_level else set(blame.get(k, []))
    if not labs:
        return False
    return not any(pid in OWNERS.get(lab, set()) for lab in labs)


def prop_clause(pid, clause):
    m = CLAUSES[pid]
    if clause in m:
        return m[clause]
    # which category a discarded read is counted in is C11's business (criteria and order of the filters); C04 only
    # says that it is counted in exactly one (Report.Conservation, files against report)
    if pid == "C11" and clause.startswith("Report.Category."):
        return "ReportCategory:" + clause.split(".", 2)[2]
    return None


def signature(pid, pclause, e, k):
    cfg = e["cfg"]
    if pclause == "MiddleIsWhatWasAligned.CoordinatesOfShortenedReadOnInputRead":
        return "C17:MiddleIsWhatWasAligned:coordinates-of-5prime-shortened-read-applied-to-input-read"
    if pclause == "MiddleIsWhatWasAligned.PairedRevcompRowsFromR1":
        return "C17:MiddleIsWhatWasAligned:paired-revcomp-rows-built-from-reverse-complement-of-R1"
    feats = []
    if cfg["paired"]:
        feats.append("paired")
    if cfg["pairads"]:
        feats.append("pairads")
    if cfg["revcomp"]:
        feats.append("revcomp")
    if cfg["action"] != "trim":
        feats.append("action=" + cfg["action"])
    if cfg["demux"] != "none":
        feats.append("demux=" + cfg["demux"])
    if pid == "C17" and (cfg["cut1"] or cfg["q1"]["on"] or cfg["nextseq"] >= 0):
        feats.append("preadapter-modification")
    return f"{pid}:{pclause}:" + ",".join(feats)


def run_family_check(ctx, pid, n_quick, n_thorough, want=("report",), config_hook=None, mc=None, extra_configs=()):
    if mc:
        for spec, cfgq, cfgt in mc:
            ctx.mc(spec, cfgq if ctx.quick else cfgt, workers=8, timeout=3000)
    events, viols, failed = RF.drive(ctx, pid, n_quick if ctx.quick else n_thorough, want, config_hook=config_hook,
                                    extra_configs=extra_configs)
    seen = set()
    for e, clause, k in viols:
        pc = prop_clause(pid, clause)
        if pc is not None and explained_elsewhere(pid, e, clause, k):
            d = ctx.extra.setdefault("deviations_attributed_to_other_properties", {})
            key = pc + " <- " + ",".join(sorted(set().union(*[set(v) for v in (e.get("_blame") or {}).values()])))
            d[key] = d.get(key, 0) + 1
            continue
        if pc is None:
            ctx.extra.setdefault("other_clauses_rejected", {})
            ctx.extra["other_clauses_rejected"][clause] = ctx.extra["other_clauses_rejected"].get(clause, 0) + 1
            continue
        ctx.violation(pc, signature(pid, pc, e, k), dict(RF.brief(e, k), trace_clause=clause),
                      case=dict(C=e["C"], replay=e.get("_replay"), want=e.get("want")))
    for ev in failed[:50]:
        # a run the command line refused or that crashed: only a crash is an observation of the code
        if ev["failed"]["exit"] == -3:
            ctx.violation("OutputFilesAreCompleteRecords", f"{pid}:garbled-output-file", dict(argv=ev["argv"], failed=ev["failed"], config=ev["C"]),
                          case=dict(C=ev["C"], replay=ev.get("_replay")))
        if ev["failed"]["exit"] == -1:
            site = ev["failed"].get("site") or ""
            # (the assertion in Statistics.as_json is the conservation law input = written + filtered itself)
            owners = {"C04"} if site == "report.py:as_json" else CRASH_OWNERS.get(site.split(":")[0])
            if owners is not None and pid not in owners:
                d = ctx.extra.setdefault("crashes_attributed_to_other_properties", {})
                d[ev["failed"].get("site")] = d.get(ev["failed"].get("site"), 0) + 1
                continue
            ctx.violation("RunCompletes", f"{pid}:crash:" + ev["failed"]["exc"][:60], dict(argv=ev["argv"], failed=ev["failed"], config=ev["C"]),
                          case=dict(C=ev["C"], replay=ev.get("_replay")))
    ctx.extra["cli_refusals"] = [dict(argv=ev["argv"], err=ev["failed"]["errors"][:1]) for ev in failed if ev["failed"]["exit"] != -1][:5]
    for e in events[:3]:
        ctx.sample(RF.brief(e, 1), limit=3)
    ctx.assumptions += [
        "Locate(adapter, sequence) is sampled from the real match_to of the adapters the run built (rule R2); it is constrained by C01/C02/C07/C08",
        "adapter class (5'/3'/anywhere/linked, required parts) is taken from the built adapter objects; C18 checks the notation",
        "records are attributed to input reads by the id token rd<k>x in their names",
    ]
    return events


def replay(ctx, path):
    """Re-run the stored run (same configuration, same reads, same schedule seed) on the current tree and judge it again."""
    import os
    from harness import gen_run as GR
    rp = json.load(open(path))
    pid = ctx.pid
    snap = (rp.get("case") or {}).get("replay")
    if not snap:
        print("replay: this file predates re-executable replays; stored observation:")
        print(json.dumps(rp["observation"], indent=1)[:3000])
        raise SystemExit(2)
    C = snap["C"]
    r1 = [tuple(x) for x in snap["r1"]]
    r2 = [tuple(x) for x in snap["r2"]]
    ev, sampler, res = GR.observe_run(C, r1, r2, os.path.join(ctx.scratch, "run"))
    ev["C"] = {k: v for k, v in C.items() if k not in ("ads1", "ads2", "sched_weights")}
    if "failed" in ev:
        print("replay: the run fails:", ev["failed"])
        if ev["failed"]["exit"] == -3:
            ctx.violation("OutputFilesAreCompleteRecords", f"{pid}:garbled-output-file", dict(argv=ev["argv"], failed=ev["failed"]))
        if ev["failed"]["exit"] == -1:
            ctx.violation("RunCompletes", f"{pid}:crash:" + ev["failed"]["exc"][:60], dict(argv=ev["argv"], failed=ev["failed"]))
        return
    ev["id"] = 0
    ev["want"] = (rp.get("case") or {}).get("want") or (["report"] + (["info"] if C.get("info") else []))
    if "report_crash" in ev:
        print("replay: the report could not be built:", ev["report_crash"])
        if pid == "C04":
            ctx.violation("RunCompletes", f"{pid}:crash:" + ev["report_crash"]["exc"][:60], dict(argv=ev["argv"], failed=ev["report_crash"]))
        ev["want"] = [w for w in ev["want"] if w not in ("report", "stats")]
    out = GR.validate_runs(ctx, [ev], {0: sampler})
    seen = set()
    for clause, k in out.get(0, []):
        pc = prop_clause(pid, clause)
        if pc is None or (pc, k) in seen or explained_elsewhere(pid, ev, clause, k):
            continue
        seen.add((pc, k))
        ctx.violation(pc, signature(pid, pc, ev, k), dict(RF.brief(ev, k), trace_clause=clause))
    print(f"replay: run re-executed ({ev['argv']}); {len(seen)} clause(s) of {pid} rejected")
