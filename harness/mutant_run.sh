#!/bin/bash
# usage: mutant_run.sh <patch.diff> <property id> [tier]   -- development tool, not a MANIFEST check
# Applies the patch to a scratch copy of /repo/src (never to /repo) and runs the check against it.
set -e
P=$(realpath "$1"); PID=$2; TIER=${3:-quick}
D=$(mktemp -d /tmp/mut.XXXXXX)
cp -r /repo/src "$D/src"
find "$D/src" -name '*.so' -delete -o -name '*.c' -delete
# only the source files matter (a change may also touch CHANGES.rst, doc/, tests/: not copied)
/venv/bin/python - "$P" > "$D/src-only.diff" <<'PY'
import re, sys
text = open(sys.argv[1], encoding="utf-8", errors="surrogateescape").read()
if "diff --git " not in text:
    sys.stdout.write(text)               # a plain unified diff (hand-rebased patches): taken as it is
else:
    parts = re.split(r"(?m)^(?=diff --git )", text)
    sys.stdout.write("".join(p for p in parts if re.match(r"diff --git a/src/", p)))
PY
if [ ! -s "$D/src-only.diff" ]; then echo "PATCH-EMPTY (nothing under src/ in this patch)"; rm -rf "$D"; echo "exit=3"; exit 3; fi
if ! (cd "$D" && patch -s -p1 < "$D/src-only.diff"); then echo "PATCH-FAILED"; rm -rf "$D"; echo "exit=3"; exit 3; fi
cd /verif
set +e
VERIF_REPO="$D" ./check "$PID" --tier "$TIER" 2>&1 | tail -${TAIL:-6}
rc=${PIPESTATUS[0]}
rm -rf "$D"
echo "exit=$rc"
