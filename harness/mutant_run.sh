#!/bin/bash
# usage: mutant_run.sh <patch.diff> <property id> [tier]   -- development tool, not a MANIFEST check
# Applies the patch to a scratch copy of /repo/src (never to /repo) and runs the check against it.
set -e
P=$(realpath "$1"); PID=$2; TIER=${3:-quick}
D=$(mktemp -d /tmp/mut.XXXXXX)
cp -r /repo/src "$D/src"
find "$D/src" -name '*.so' -delete -o -name '*.c' -delete
if ! (cd "$D" && patch -s -p1 < "$P"); then echo "PATCH-FAILED"; rm -rf "$D"; echo "exit=3"; exit 3; fi
cd /verif
set +e
VERIF_REPO="$D" ./check "$PID" --tier "$TIER" 2>&1 | tail -${TAIL:-6}
rc=${PIPESTATUS[0]}
rm -rf "$D"
echo "exit=$rc"
