#!/venv/bin/python
"""Regenerates the table of seeded changes in DESIGN.md (between the markers <!-- MUTANTS:BEGIN --> / END)
from seeded/*/meta.json and the last regression run (seeded/REGRESSION.json, written by harness/all_mutants.py)."""
import glob
import json
import os

ROOT = "/verif"


def main():
    reg = {}
    p = os.path.join(ROOT, "seeded", "REGRESSION.json")
    if os.path.exists(p):
        reg = {r["dir"]: r for r in json.load(open(p))}
    rows = []
    notdet = []
    n = det = neut = missed_first = 0
    for d in sorted(glob.glob(os.path.join(ROOT, "seeded", "*"))):
        if not os.path.isdir(d):
            continue
        m = json.load(open(os.path.join(d, "meta.json")))
        name = os.path.basename(d)
        files = ", ".join(os.path.basename(f) for f in m.get("files", []))[:40]
        summ = " ".join(m.get("summary", "").split())[:150].replace("|", "/")
        r = reg.get(name, {})
        verdict = r.get("verdict", "?")
        clauses = ", ".join(c.split(".")[-1] if c.count(".") > 1 else c for c in r.get("clauses", [])[:3])
        by = ", ".join(m.get("detected_by", [])) or "not detected"
        note = " ".join(m.get("note", "").split())[:220].replace("|", "/")
        n += 1
        det += verdict == "DETECTED"
        if verdict != "DETECTED":
            notdet.append(f"{name} ({verdict.lower()})")
        neut += verdict == "NEUTRALISED" or not m.get("detected_by")
        missed_first += "missed" in note.lower()
        rows.append(f"| {name} | {files} | {summ} | {by} | {verdict.lower()}{(': ' + clauses) if clauses else ''} | {note} |")
    head = ("| id | file | change (abridged) | stored as detected by | last regression run (quick tier of the property), clauses | note |\n"
            "|---|---|---|---|---|---|\n")
    text = head + "\n".join(rows) + "\n\n" + \
        f"Summary: {n} seeded changes stored; last regression run (`harness/all_mutants.py`, seed 1; the first three rounds were also run with seeds 2 and 3): " \
        f"{det} detected by the quick tier of the check named in the fourth column (the property they were written for, or C08 for " \
        f"the index defects that were written for C02 / C15 / C17, C18 / C06 for three round-5 changes), {n - det} not: {', '.join(notdet) or '-'} (C08_m2 has nothing left to " \
        f"break since the repair of the N look-up; C04_C04r5_m2 needs an option combination the unchanged program answers with an " \
        f"uncaught exception, see its note). " \
        f"{missed_first} of them were missed by the first version of the respective check and led to the strengthenings named in the note column.\n"
    dp = os.path.join(ROOT, "DESIGN.md")
    s = open(dp).read()
    b, e = "<!-- MUTANTS:BEGIN -->\n", "<!-- MUTANTS:END -->\n"
    i, j = s.index(b) + len(b), s.index(e)
    open(dp, "w").write(s[:i] + text + s[j:])
    print(f"{n} rows")


if __name__ == "__main__":
    main()
