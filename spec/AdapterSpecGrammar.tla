------------------------- MODULE AdapterSpecGrammar -------------------------
(***************************************************************************)
(* The documented adapter-specification notation (C18) as a derivation       *)
(* record and its meaning.                                                   *)
(*                                                                          *)
(* A part (one adapter sequence with its decorations):                       *)
(*   [seq, restr, rightmost, anywhere, named, ekey, eval, okey, oval,         *)
(*    ind, req]                                                              *)
(*   seq   : index into SeqTexts (text with optional x{n} repeats)           *)
(*   restr : "none" | "anchor" | "ni"      (^ / $ and X)                      *)
(*   ekey  : "none" | "e" | "max_error_rate" | "error_rate" | "max_errors"    *)
(*   eval  : <<num, den>> of the value written (>= 1: absolute errors)        *)
(*   okey  : "none" | "o" | "min_overlap";  oval : Nat                        *)
(*   ind   : "none" | "indels" | "noindels";  req : "none"|"required"|"optional" *)
(* A derivation:                                                             *)
(*   [kind, opt, p1, p2, fkind, fpar, glob]                                   *)
(*   kind : "single" | "linked" | "file";  opt : "a" | "g" | "b"              *)
(*   p1, p2: parts (p2 used for linked: 3' part, and for file: 2nd record)    *)
(*   fkind: "file:" | "^file:" | "file$:";  fpar: a part whose parameters     *)
(*          are the file-level parameters                                     *)
(*   glob : [e : <<num, den>>, o : Nat, noindels, nowild (-N), rw]            *)
(* Meaning(d): [valid, ads] with ads a sequence of adapter meanings           *)
(*   [cls, seq, rate : <<num, den>>, ovl, indels, aw, rw, named, fa,           *)
(*    linked, freq, breq, front, back]                                        *)
(***************************************************************************)
EXTENDS Bases

\* ---- brace expansion: x{n} repeats the character x n times ---------------------
IsDigitC(c) == c >= 48 /\ c <= 57
RECURSIVE NumEnd(_, _)
NumEnd(t, i) == IF i <= Len(t) /\ IsDigitC(t[i]) THEN NumEnd(t, i + 1) ELSE i
RECURSIVE NumVal(_, _, _, _)
NumVal(t, i, j, acc) == IF i >= j THEN acc ELSE NumVal(t, i + 1, j, acc * 10 + (t[i] - 48))
RECURSIVE Repeat(_, _)
Repeat(c, n) == IF n = 0 THEN <<>> ELSE <<c>> \o Repeat(c, n - 1)
RECURSIVE ExpandFrom(_, _)
ExpandFrom(t, i) ==
  IF i > Len(t) THEN <<>>
  ELSE IF i + 1 <= Len(t) /\ t[i + 1] = 123          \* "{"
       THEN LET j == NumEnd(t, i + 2) IN              \* t[j] = "}"
            Repeat(t[i], NumVal(t, i + 2, j, 0)) \o ExpandFrom(t, j + 1)
       ELSE <<t[i]>> \o ExpandFrom(t, i + 1)
ExpandBraces(t) == ExpandFrom(t, 1)

\* the adapter sequence is upper-cased, U is read as T and I (inosine) as N
Normalize(t) == [i \in 1..Len(t) |-> LET c == Upper(t[i]) IN IF c = 85 THEN 84 ELSE IF c = 73 THEN 78 ELSE c]

\* ---- one part under defaults D = [rate, ovl, indels] -----------------------------------
NonN(s) == Cardinality({i \in 1..Len(s) : Upper(s[i]) # 78})
HasWild(s) == \E i \in 1..Len(s) : Upper(s[i]) \notin {65, 67, 71, 84}

ClassOf(opt, restr, rightmost) ==
  CASE opt = "a" /\ restr = "none" -> "BackAdapter"
    [] opt = "a" /\ restr = "anchor" -> "SuffixAdapter"
    [] opt = "a" /\ restr = "ni" -> "NonInternalBackAdapter"
    [] opt = "g" /\ restr = "none" -> IF rightmost THEN "RightmostFrontAdapter" ELSE "FrontAdapter"
    [] opt = "g" /\ restr = "anchor" -> "PrefixAdapter"
    [] opt = "g" /\ restr = "ni" -> "NonInternalFrontAdapter"
    [] opt = "b" -> "AnywhereAdapter"

\* documented invalid combinations of one part (inLinked: the part is one half of A...B)
PartValid(p, opt, inLinked) ==
  /\ ~(opt = "b" /\ p.restr # "none")                       \* no placement restriction for -b
  /\ ~(p.okey # "none" /\ p.restr = "anchor")                \* min_overlap with an anchored adapter
  /\ ~(p.rightmost /\ (opt # "g" \/ p.restr # "none"))        \* rightmost only for regular 5' adapters
  /\ (p.req = "none" \/ inLinked)                             \* required/optional only within linked adapters
  /\ ~(p.anywhere /\ (inLinked \/ opt = "b" \/ p.restr # "none" \/ p.rightmost))   \* (only generated where documented)

\* a value >= 1 for the error parameter is a number of errors: divided by the number of non-N bases
RateOf(v, s) == IF v[1] >= v[2] THEN <<v[1], v[2] * NonN(s)>> ELSE v

PartMeaning(p, opt, D, glob, texts) ==
  LET s == Normalize(ExpandBraces(texts[p.seq]))
      rate == RateOf(IF p.ekey # "none" THEN p.eval ELSE D.rate, s)
      ovl0 == IF p.okey # "none" THEN p.oval ELSE D.ovl
      ovl == IF p.restr = "anchor" THEN Len(s) ELSE Min2(ovl0, Len(s))
      ind == IF p.ind = "indels" THEN TRUE ELSE IF p.ind = "noindels" THEN FALSE ELSE D.indels
  IN [cls |-> ClassOf(opt, p.restr, p.rightmost), seq |-> s, rate |-> rate, ovl |-> ovl, indels |-> ind,
      aw |-> (~glob.nowild) /\ HasWild(s), rw |-> glob.rw, named |-> p.named, fa |-> p.anywhere]

Defaults(glob) == [rate |-> glob.e, ovl |-> glob.o, indels |-> ~glob.noindels]
\* file-level parameters override the global ones; adapter-level ones override both (in PartMeaning)
FileDefaults(fp, glob) ==
  [rate |-> IF fp.ekey # "none" THEN fp.eval ELSE glob.e,
   ovl |-> IF fp.okey # "none" THEN fp.oval ELSE glob.o,
   indels |-> IF fp.ind = "indels" THEN TRUE ELSE IF fp.ind = "noindels" THEN FALSE ELSE ~glob.noindels]

NoAd == [cls |-> "", seq |-> <<>>, rate |-> <<0, 1>>, ovl |-> 0, indels |-> FALSE, aw |-> FALSE, rw |-> FALSE,
         named |-> FALSE, fa |-> FALSE]
Single(m) == [linked |-> FALSE, freq |-> FALSE, breq |-> FALSE, a |-> m, front |-> NoAd, back |-> NoAd]

\* `anywhere` is documented for regular 3' and 5' adapters only; elsewhere its meaning is not fixed, but the
\* specification must be either accepted or rejected with status 2 (never an unhandled failure)
Unspecified(d) == d.kind = "single" /\ d.p1.anywhere /\ ~(d.opt \in {"a", "g"} /\ d.p1.restr = "none" /\ ~d.p1.rightmost)

Meaning(d, texts) ==
  CASE d.kind = "single" ->
         IF ~PartValid(d.p1, d.opt, FALSE) THEN [valid |-> FALSE, ads |-> <<>>]
         ELSE [valid |-> TRUE, ads |-> <<Single(PartMeaning(d.p1, d.opt, Defaults(d.glob), d.glob, texts))>>]
    [] d.kind = "linked" ->
         \* A...B: the first part is a 5' adapter, the second a 3' adapter.  With -a only the anchored
         \* (restricted) parts are required, with -g both are; required/optional override that.
         IF d.opt = "b" \/ ~PartValid(d.p1, "g", TRUE) \/ ~PartValid(d.p2, "a", TRUE)
         THEN [valid |-> FALSE, ads |-> <<>>]
         ELSE LET f == PartMeaning(d.p1, "g", Defaults(d.glob), d.glob, texts)
                  b == PartMeaning(d.p2, "a", Defaults(d.glob), d.glob, texts)
                  freq0 == IF d.opt = "g" THEN TRUE ELSE d.p1.restr # "none"
                  breq0 == IF d.opt = "g" THEN TRUE ELSE d.p2.restr # "none"
                  freq == IF d.p1.req = "required" THEN TRUE ELSE IF d.p1.req = "optional" THEN FALSE ELSE freq0
                  breq == IF d.p2.req = "required" THEN TRUE ELSE IF d.p2.req = "optional" THEN FALSE ELSE breq0
              IN [valid |-> TRUE,
                  ads |-> <<[linked |-> TRUE, freq |-> freq, breq |-> breq, a |-> [NoAd EXCEPT !.named = d.p1.named],
                             front |-> f, back |-> b]>>]
    [] d.kind = "file" ->
         \* file: / ^file: / file$: read every FASTA record; ^ and $ anchor every record
         LET restrOf(p) == IF d.fkind = "file:" THEN p.restr ELSE "anchor"
             opt == d.opt
             okAnchor == ~(d.fkind = "^file:" /\ opt # "g") /\ ~(d.fkind = "file$:" /\ opt # "a")
             q1 == [d.p1 EXCEPT !.restr = restrOf(d.p1)]
             q2 == [d.p2 EXCEPT !.restr = restrOf(d.p2)]
             D == FileDefaults(d.fpar, d.glob)
         IN IF ~okAnchor \/ ~PartValid(q1, opt, FALSE) \/ ~PartValid(q2, opt, FALSE)
            THEN [valid |-> FALSE, ads |-> <<>>]
            ELSE [valid |-> TRUE,
                  \* the third adapter is a plain specification given after the file on the same command
                  \* line: file-level parameters must not leak into it
                  ads |-> <<Single([PartMeaning(q1, opt, D, d.glob, texts) EXCEPT !.named = TRUE]),
                            Single([PartMeaning(q2, opt, D, d.glob, texts) EXCEPT !.named = TRUE]),
                            Single(PartMeaning([d.fpar EXCEPT !.ekey = "none", !.okey = "none", !.ind = "none"], opt,
                                               Defaults(d.glob), d.glob, texts))>>]
=============================================================================
