---------------------------- MODULE MC_FileLayout ----------------------------
(* TLC enumerates every valid FileLayout configuration, writes them to OUT_FILE for the harness to
   execute, and checks the side facts of OutFormat. *)
EXTENDS FileLayout, TLC, Json, IOUtils, SequencesExt
VARIABLE c
ASSUME ndJsonSerialize(IOEnv.OUT_FILE, SetToSeq(Configs))
Init == c \in Configs
Next == UNCHANGED c
Spec == Init /\ [][Next]_c
\* the format never depends on container, layout or cores
FormatIndependent ==
  \A x \in Configs : (x.infmt = c.infmt /\ x.outname = c.outname /\ x.fastaflag = c.fastaflag) => OutFormat(x) = OutFormat(c)
                      \* (in particular it does not depend on the other output files of the run)
FormatIsFastaOrFastq == OutFormat(c) \in {"fasta", "fastq"} /\ ((OutFormat(c) = "fastq" /\ ~MustRefuse(c)) => c.infmt = "fastq")
\* being refused does not depend on container, layout or cores either
RefusalIndependent ==
  \A x \in Configs : (x.infmt = c.infmt /\ x.outname = c.outname /\ x.redirect = c.redirect) => MustRefuse(x) = MustRefuse(c)
=============================================================================
