------------------------------ MODULE Trace_Cli ------------------------------
(* Trace specification for CliRules: one observation per executed configuration: exit status and whether an
   error message was printed. *)
EXTENDS TraceIO, CliRules
VARIABLE l
Check(e) ==
  /\ Rep(e.id, "Cli.AcceptedRunsToCompletion", Outcome(e.cfg) = "ok" => e.exit = 0)
  /\ Rep(e.id, "Cli.RefusedWithMessageAndStatus2", Outcome(e.cfg) = "usage" => (e.exit = 2 /\ e.message))
Init == l = 1
Next == l <= Len(Trace) /\ (Check(Trace[l]) = TRUE) /\ l' = l + 1
Spec == Init /\ [][Next]_l
=============================================================================
