------------------------------ MODULE Trace_Run ------------------------------
(***************************************************************************)
(* Trace specification for whole command-line runs (C03, C04, C05, C09,      *)
(* C10, C11, C15, C16, C17, C20).  One observation = one run of the real     *)
(* command line: normalised configuration, input reads, for every read the   *)
(* sampled Locate table and what was observed (destination file, final        *)
(* record(s), info-file rows), plus the reports.                              *)
(* The specification steps the RunModel through every read and compares.      *)
(* Rejected clauses print <<"VIOL", id, clause, read index>>; a table entry    *)
(* the model needs but the harness did not sample prints <<"MISS", ...>>.      *)
(***************************************************************************)
EXTENDS TraceIO, RunModel
VARIABLE l

RepK(id, clause, k, ok) == IF ok THEN TRUE ELSE PrintT(<<"VIOL", id, clause, k>>)
Has(e, g) == \E i \in 1..Len(e.want) : e.want[i] = g

SameRead(a, b) == a.name = b.name /\ a.seq = b.seq /\ a.qual = b.qual

\* ---- model-independent structure of an output record (C03) ----
\* the written sequence is an aligned slice of the input (given orientation / mate), same slice of the
\* qualities (up to zero-capping), or for mask/lowercase an image of equal length
IsSliceOf(oseq, oqual, iseq, iqual, zc, base) ==
  \E lo \in 0..Len(iseq) : \E hi \in lo..Len(iseq) :
     /\ oseq = Slice(iseq, lo, hi)
     /\ (iqual = <<>> \/ oqual = (IF zc THEN [i \in 1..(hi - lo) |-> IF iqual[lo + i] < base THEN base ELSE iqual[lo + i]]
                                       ELSE Slice(iqual, lo, hi)))
Orientations(cfg, rd) ==
  {<<rd.in1.seq, rd.in1.qual>>}
  \cup (IF cfg.revcomp /\ ~cfg.paired THEN {<<RevComp(rd.in1.seq), Reverse(rd.in1.qual)>>} ELSE {})
  \cup (IF cfg.revcomp /\ cfg.paired THEN {<<rd.in2.seq, rd.in2.qual>>} ELSE {})
Orientations2(cfg, rd) ==
  {<<rd.in2.seq, rd.in2.qual>>} \cup (IF cfg.revcomp THEN {<<rd.in1.seq, rd.in1.qual>>} ELSE {})
StructureOK(cfg, o, oris) ==
  /\ (o.qual = <<>> \/ Len(o.qual) = Len(o.seq))
  /\ IF cfg.action \in {"mask", "lowercase"} /\ (cfg.ads1 # <<>> \/ cfg.ads2 # <<>>)
     THEN \E x \in oris : \E lo \in 0..Len(x[1]) : \E hi \in lo..Len(x[1]) :
             /\ Len(o.seq) = hi - lo
             /\ \A i \in 1..(hi - lo) :
                   \/ Upper(o.seq[i]) = Upper(x[1][lo + i])
                   \/ cfg.action = "mask" /\ o.seq[i] = 78
     ELSE \E x \in oris : IsSliceOf(o.seq, o.qual, x[1], x[2], cfg.zerocap, cfg.qbase)

\* ---- info-file rows of one read against the property (C17) ----
\* observed row: [name, errors, rs, re, before, mid, after, adname, qb, qm, qa, rc]  (errors = -1: no-match row
\* with before = sequence, qb = qualities)
RECURSIVE RowsOK(_, _, _, _, _, _, _, _, _, _)
RowsOK(e, k, rows, parts, j, expSeq, expQual, searched, off, swap) ==
  \* j-th row against j-th part; expSeq/expQual: what the fields must concatenate to; searched: what was searched
  IF j > Len(parts) THEN TRUE
  ELSE LET row == rows[j]
           p == parts[j].part
           cat == row.before \o row.mid \o row.after
           qcat == row.qb \o row.qm \o row.qa
           nextSeq == IF parts[j].front THEN row.after ELSE row.before
           nextQual == IF parts[j].front THEN row.qa ELSE row.qb
           nextSearched == IF parts[j].front THEN Slice(searched, p.re, Len(searched)) ELSE Slice(searched, 0, p.rs)
       IN /\ RepK(e.id, "Info.AdapterNameAndSuffix", k, row.adname = parts[j].name)
          /\ RepK(e.id, "Info.FieldsConcatenateToInput", k, cat = expSeq)
          /\ RepK(e.id, "Info.QualitiesSplitAlike", k,
                  (expQual = <<>> /\ qcat = <<>>)
                  \/ (qcat = expQual /\ Len(row.qb) = Len(row.before) /\ Len(row.qm) = Len(row.mid)))
          /\ LET ok == row.errors = p.errors /\ row.mid = Slice(searched, p.rs, p.re)
                 \* what the two known defects produce: the coordinates of the searched read applied (with
                 \* Python's clipping slices) to another read: the unshortened input read / the reverse
                 \* complement of R1 instead of R2
                 clip(x) == Min2(x, Len(cat))
                 shape == row.errors = p.errors /\ row.rs = p.rs /\ row.re = p.re
                          /\ row.mid = Slice(cat, clip(p.rs), clip(p.re))
                 known == ~ok /\ shape /\ (off > 0 \/ swap)
             IN /\ known \/ RepK(e.id, "Info.MiddleIsCoordinates", k,
                                  row.rs >= 0 /\ row.rs <= row.re /\ row.re <= Len(cat) /\ row.mid = Slice(cat, row.rs, row.re))
                /\ IF ~known THEN RepK(e.id, "Info.MiddleIsWhatWasAligned", k, ok)
                   ELSE IF swap THEN RepK(e.id, "Info.MiddleIsWhatWasAligned.PairedRevcompRowsFromR1", k, FALSE)
                   ELSE RepK(e.id, "Info.MiddleIsWhatWasAligned.CoordinatesOfShortenedReadOnInputRead", k, FALSE)
          /\ RowsOK(e, k, rows, parts, j + 1, nextSeq, nextQual, nextSearched, off, swap)

InfoOK(e, k, cfg, rd, M) ==
  LET rows == rd.obs.rows
      parts == AllPartRows(M.ms1, 1)
      \* the read as read from the input, reverse-complemented if flagged
      inSeq == IF M.isrc THEN RevComp(rd.in1.seq) ELSE rd.in1.seq
      inQual == IF M.isrc THEN Reverse(rd.in1.qual) ELSE rd.in1.qual
  IN /\ RepK(e.id, "Info.RowForEveryInputRead", k, Len(rows) >= 1)
     /\ Len(rows) >= 1 =>
        IF parts = <<>>
        THEN RepK(e.id, "Info.NoMatchRow", k,
                  Len(rows) = 1 /\ rows[1].errors = -1 /\ rows[1].name = M.o1.name
                  /\ rows[1].before = M.o1.seq /\ rows[1].qb = M.o1.qual)
        ELSE /\ RepK(e.id, "Info.RowsInMatchOrder", k,
                     Len(rows) = Len(parts) /\ \A j \in 1..Len(rows) : rows[j].errors >= 0 /\ rows[j].name = M.o1.name)
             /\ (Len(rows) = Len(parts) /\ \A j \in 1..Len(rows) : rows[j].errors >= 0) =>
                   RowsOK(e, k, rows, parts, 1, inSeq, inQual, M.s1,
                          LET src == IF M.isrc /\ cfg.paired THEN rd.in2 ELSE rd.in1
                              o == PreOffsets(cfg, src, M.isrc /\ cfg.paired)
                          IN IF M.isrc /\ ~cfg.paired THEN o[2] ELSE o[1],
                          M.isrc /\ cfg.paired)
     /\ RepK(e.id, "Info.RcColumn", k,
             \A j \in 1..Len(rows) : rows[j].errors < 0 \/
                 rows[j].rc = (IF ~cfg.revcomp \/ (cfg.ads1 = <<>> /\ cfg.ads2 = <<>>) THEN <<>>
                               ELSE IF M.isrc THEN <<49>> ELSE <<48>>))

\* ---- --rest-file / --wildcard-file lines of one read (observed: rd.obs.rest, rd.obs.wild: sequences of
\* <<text, name>> lines that carry this read's id) ----
AdSeqOf(cfg, id) == LET i == CHOOSE j \in 1..Len(cfg.ads1) : cfg.ads1[j].id = id IN cfg.ads1[i].aseq
AuxOK(e, k, cfg, rd, M) ==
  LET ms == M.ms1
      m == ms[Len(ms)]
      searched == SearchedInRound(M.s1, ms, Len(ms))
      rest == AuxRest(m, searched)
  IN /\ RepK(e.id, "Aux.RestFile", k,
             IF ms = <<>> \/ rest = <<>> THEN rd.obs.rest = <<>>
             ELSE rd.obs.rest = << <<rest, M.o1.name>> >>)
     /\ RepK(e.id, "Aux.WildcardFile", k,
             IF ms = <<>> THEN rd.obs.wild = <<>>
             ELSE rd.obs.wild = << <<AuxWild(m, AdSeqOf(cfg, m.ad), searched), M.o1.name>> >>)

\* ---- blame: which modifier of the recorded chain (the read pair after every modifier of a one-core run)
\* deviates *locally* from its specification, given the input it actually received.  Used by the harness to
\* attribute an end-to-end deviation to the property that owns the deviating stage (a check does not report
\* a deviation that another property's stage explains).  Printed, never a verdict by itself. ----
Rd0(s, q) == [name |-> <<>>, seq |-> s, qual |-> q]
StageApply(lab, arg, cfg, r, second) ==
  CASE lab = "cut" -> CutOne(r, arg)
    [] lab = "nextseq" -> NextSeqStage(r, cfg.nextseq, cfg.qbase)
    [] lab = "qtrim" -> QualStage(r, IF second THEN cfg.q2 ELSE cfg.q1, cfg.qbase)
    [] lab = "polya" -> PolyAStage(r, second)
    [] lab = "shorten" -> ShortenStage(r, (IF second THEN cfg.len2 ELSE cfg.len1).n)
    [] lab = "trimn" -> TrimNStage(r)
    [] lab = "zerocap" -> IF r.qual = <<>> THEN r ELSE ZeroCapStage(r, cfg.qbase)
    [] OTHER -> r
ProjMatch(m) == <<m.name, IF m.hasF THEN m.f.rs ELSE -1, IF m.hasF THEN m.f.re ELSE -1,
                  IF m.hasB THEN m.b.rs ELSE -1, IF m.hasB THEN m.b.re ELSE -1>>
ProjMatches(ms) == [j \in 1..Len(ms) |-> ProjMatch(ms[j])]
ObsMatches(m) == [j \in 1..Len(m) |-> <<m[j][1], m[j][2], m[j][3], m[j][4], m[j][5]>>]

\* one mate against one adapter list: is it the choice of matches or their application that deviates?
\* "record": the read was trimmed as the model says but the matches noted for it (what the info file, the
\* demultiplexer, the statistics and {adapter_name} consume) are different ones; "choice": other matches were applied
MateBlame(cfg, table, ads, p, om, hasm, s, q) ==
  IF ads = <<>> THEN (IF p.seq # s \/ p.qual # q THEN {"action"} ELSE {}) \cup (IF hasm /\ om # <<>> THEN {"record"} ELSE {})
  ELSE IF NeedsCut1(table, ads, cfg.action, cfg.times, p) # {} THEN {}
  ELSE LET c == Cut1(table, ads, cfg.action, cfg.times, p)
           outOK == c[1].seq = s /\ c[1].qual = q
       IN IF hasm /\ ObsMatches(om) # ProjMatches(c[2]) THEN (IF outOK /\ cfg.action # "none" THEN {"record"} ELSE {"choice"})
          ELSE IF ~outOK THEN (IF hasm THEN {"action"} ELSE {"adapter"}) ELSE {}

AdapterBlame(cfg, table, p1, p2, st) ==
  IF cfg.paired
  THEN IF NeedsPE(cfg, table, p1, p2) # {} THEN {}
       ELSE LET x == StagePE(cfg, table, p1, p2)
                differs == x.r1.seq # st.s1 \/ x.r1.qual # st.q1 \/ x.r2.seq # st.s2 \/ x.r2.qual # st.q2
                orient == IF cfg.revcomp /\ st.isrc >= 0 /\ (st.isrc = 1) # x.isrc THEN {"orient"} ELSE {}
            IN IF cfg.pairads
               THEN IF st.hasm /\ (ObsMatches(st.m1) # ProjMatches(x.ms1) \/ ObsMatches(st.m2) # ProjMatches(x.ms2))
                    THEN (IF differs \/ cfg.action = "none" THEN {"choice"} ELSE {"record"})
                    ELSE IF differs THEN (IF st.hasm THEN {"action"} ELSE {"adapter"}) ELSE {}
               ELSE IF cfg.revcomp /\ cfg.action = "lowercase"
               THEN orient \cup (IF orient = {} /\ differs THEN {"adapter"} ELSE {})       \* (both mates are upper-cased first: not split up)
               ELSE LET sw == st.isrc = 1
                        i1 == IF sw THEN p2 ELSE p1
                        i2 == IF sw THEN p1 ELSE p2
                    IN orient \cup MateBlame(cfg, table, cfg.ads1, i1, st.m1, st.hasm, st.s1, st.q1)
                              \cup MateBlame(cfg, table, cfg.ads2, i2, st.m2, st.hasm, st.s2, st.q2)
  ELSE LET ori == IF st.isrc = 1 THEN RevCompRead(p1) ELSE p1 IN
       IF cfg.ads1 = <<>> \/ NeedsSE(cfg, table, p1) # {} THEN {}
       ELSE LET decision == IF cfg.revcomp THEN CutRevComp(table, cfg.ads1, cfg.action, cfg.times, p1)[3] ELSE FALSE
            IN (IF cfg.revcomp /\ st.isrc >= 0 /\ (st.isrc = 1) # decision THEN {"orient"} ELSE {})
               \cup MateBlame(cfg, table, cfg.ads1, ori, st.m1, st.hasm, st.s1, st.q1)

\* C10, directly on the recorded chain: the modifiers act in the documented order (cut, NextSeq, quality, adapters,
\* poly-A, --length, --trim-n, then the name steps and zero-capping); labels the recorder does not know are skipped
StageRank(lab) ==
  CASE lab = "cut" -> 1 [] lab = "nextseq" -> 2 [] lab = "qtrim" -> 3 [] lab = "adapter" -> 4 [] lab = "polya" -> 5
    [] lab = "shorten" -> 6 [] lab = "trimn" -> 7 [] lab = "name" -> 8 [] lab = "zerocap" -> 8 [] OTHER -> 0
RanksOf(chain, second) ==
  LET labs == [i \in 1..Len(chain) |-> StageRank(IF second THEN chain[i].l2 ELSE chain[i].l1)] IN
  SelectSeq(labs, LAMBDA x : x > 0)
NonDecreasing(s) == \A i \in 1..(Len(s) - 1) : s[i] <= s[i + 1]
OrderOK(cfg, chain) == NonDecreasing(RanksOf(chain, FALSE)) /\ (cfg.paired => NonDecreasing(RanksOf(chain, TRUE)))

\* the modifiers that act on a mate are those the options ask for (a modifier that is missing or superfluous is
\* nobody's local deviation, but explains a different output): label "stages", owned by C10
RECURSIVE Rep2(_, _)
Rep2(x, n) == IF n = 0 THEN <<>> ELSE <<x>> \o Rep2(x, n - 1)
ExpectedLabels(cfg, second) ==
  LET cuts == IF second THEN cfg.cut2 ELSE cfg.cut1
      q == IF second THEN cfg.q2 ELSE cfg.q1
      ln == IF second THEN cfg.len2 ELSE cfg.len1
  IN Rep2("cut", Len(cuts)) \o (IF cfg.nextseq >= 0 THEN <<"nextseq">> ELSE <<>>) \o (IF q.on THEN <<"qtrim">> ELSE <<>>)
     \o (IF cfg.polya THEN <<"polya">> ELSE <<>>) \o (IF ln.on THEN <<"shorten">> ELSE <<>>)
     \o (IF cfg.trimn THEN <<"trimn">> ELSE <<>>)
ObservedLabels(chain, second) ==
  LET labs == [i \in 1..Len(chain) |-> IF second THEN chain[i].l2 ELSE chain[i].l1] IN
  SelectSeq(labs, LAMBDA x : x \in {"cut", "nextseq", "qtrim", "polya", "shorten", "trimn"})
HasUnknown(chain) == \E i \in 1..Len(chain) : chain[i].l1 = "unknown" \/ chain[i].l2 = "unknown"
StagesBlame(cfg, chain) ==
  IF chain = <<>> \/ HasUnknown(chain) THEN {}
  ELSE IF ObservedLabels(chain, FALSE) # ExpectedLabels(cfg, FALSE)
          \/ (cfg.paired /\ ObservedLabels(chain, TRUE) # ExpectedLabels(cfg, TRUE))
          \/ ~OrderOK(cfg, chain) THEN {"stages"} ELSE {}

\* a quality-trimming stage that deviates: if what that stage produced *for every read of the run* is what the
\* other mate's option (or a mixture of the two options' non-zero cutoffs) produces from the stage's input, the
\* cutoffs reached the wrong mate ("qparams": which option acts on which read, C10); otherwise the trimming
\* itself deviates ("qtrim", C13)
StageIn(rd, i, second) ==
  IF i = 1 THEN (IF second THEN Rd0(rd.in2.seq, rd.in2.qual) ELSE Rd0(rd.in1.seq, rd.in1.qual))
  ELSE LET st == rd.obs.chain[i - 1] IN IF second THEN Rd0(st.s2, st.q2) ELSE Rd0(st.s1, st.q1)
RunExplained(e, i, second, c) ==
  \A k2 \in 1..Len(e.reads) :
     LET ch == e.reads[k2].obs.chain IN
     (i <= Len(ch) /\ (IF second THEN ch[i].l2 ELSE ch[i].l1) = "qtrim") =>
        LET x == QualStage(StageIn(e.reads[k2], i, second), c, e.cfg.qbase)
        IN x.seq = (IF second THEN ch[i].s2 ELSE ch[i].s1) /\ x.qual = (IF second THEN ch[i].q2 ELSE ch[i].q1)
QLabel(e, i, second) ==
  LET cfg == e.cfg
      own == IF second THEN cfg.q2 ELSE cfg.q1
      oth == IF second THEN cfg.q1 ELSE cfg.q2
      cands == {[on |-> TRUE, c5 |-> a, c3 |-> b] : a \in {own.c5, oth.c5}, b \in {own.c3, oth.c3}}
      expl == {c \in cands : /\ <<c.c5, c.c3>> # <<own.c5, own.c3>>
                              /\ (c.c5 # own.c5 => c.c5 > 0) /\ (c.c3 # own.c3 => c.c3 > 0)
                              /\ RunExplained(e, i, second, c)}
  IN IF cfg.paired /\ oth.on /\ expl # {} THEN "qparams" ELSE "qtrim"
RECURSIVE BlameFrom(_, _, _, _, _, _, _)
BlameFrom(e, cfg, table, chain, i, p1, p2) ==
  IF i > Len(chain) THEN {}
  ELSE LET st == chain[i]
           n1 == Rd0(st.s1, st.q1)
           n2 == Rd0(st.s2, st.q2)
           here ==
             IF st.l1 = "adapter" \/ st.l2 = "adapter" THEN AdapterBlame(cfg, table, p1, p2, st)
             ELSE (IF st.l1 \notin {"", "unknown"} /\ (LET x == StageApply(st.l1, st.a1, cfg, p1, FALSE) IN x.seq # st.s1 \/ x.qual # st.q1)
                   THEN {IF st.l1 = "qtrim" THEN QLabel(e, i, FALSE) ELSE st.l1} ELSE {})
                  \cup (IF cfg.paired /\ st.l2 \notin {"", "unknown"} /\ (LET y == StageApply(st.l2, st.a2, cfg, p2, TRUE) IN y.seq # st.s2 \/ y.qual # st.q2)
                        THEN {IF st.l2 = "qtrim" THEN QLabel(e, i, TRUE) ELSE st.l2} ELSE {})
       IN here \cup BlameFrom(e, cfg, table, chain, i + 1, n1, n2)
Blame(e, k) ==
  LET rd == e.reads[k] IN
  BlameFrom(e, e.cfg, rd.table, rd.obs.chain, 1, Rd0(rd.in1.seq, rd.in1.qual), Rd0(rd.in2.seq, rd.in2.qual))
  \cup StagesBlame(e.cfg, rd.obs.chain)
PrintBlame(e, k) == \A b \in Blame(e, k) : PrintT(<<"BLAME", e.id, k, b>>)

\* ---- one read ----
CheckRead(e, k) ==
  LET cfg == e.cfg
      rd == e.reads[k]
      needs == Needs(cfg, rd.table, rd.in1, rd.in2)
  IN IF needs # {}
     THEN \A n \in needs : PrintT(<<"MISS", e.id, k, n[1], n[2]>>)
     ELSE LET M == Run(cfg, rd.table, rd.in1, rd.in2)
              ob == rd.obs
          IN /\ PrintBlame(e, k)
             \* all modifiers conform locally, yet the read ends up somewhere else than the filter model says
             /\ ((ob.chain # <<>> /\ Blame(e, k) = {} /\ ob.dest # M.dest) => PrintT(<<"BLAME", e.id, k, "filter">>))
             /\ RepK(e.id, "Stages.DocumentedOrder", k, OrderOK(cfg, ob.chain))
             /\ RepK(e.id, "Dest", k, ob.dest = M.dest)
             /\ RepK(e.id, "Fate", k, ob.dest # "none" \/ ~CountsAsWritten(cfg, M.fate))
             /\ (ob.dest # "none" /\ M.dest # "none") =>
                /\ RepK(e.id, "Seq1", k, ob.o1.seq = M.o1.seq /\ ob.o1.qual = M.o1.qual)
                /\ RepK(e.id, "Name1", k, ob.o1.name = M.o1.name)
                /\ RepK(e.id, "Struct1", k, StructureOK(cfg, ob.o1, Orientations(cfg, rd)))
                /\ cfg.paired =>
                   /\ RepK(e.id, "Seq2", k, ob.o2.seq = M.o2.seq /\ ob.o2.qual = M.o2.qual)
                   /\ RepK(e.id, "Name2", k, ob.o2.name = M.o2.name)
                   /\ RepK(e.id, "Struct2", k, StructureOK(cfg, ob.o2, Orientations2(cfg, rd)))
                /\ (cfg.demux # "none" /\ M.dest = "demux") =>
                   RepK(e.id, "DemuxFile", k,
                        /\ ob.demux1 = (IF M.ms1 = <<>> THEN <<>> ELSE LastName(M.ms1))
                        /\ cfg.demux = "combi" => ob.demux2 = (IF M.ms2 = <<>> THEN <<>> ELSE LastName(M.ms2)))
             /\ RepK(e.id, "Occurrences", k, ob.occ = (IF M.dest = "none" THEN 0 ELSE 1) /\ ob.occ2 = (IF cfg.paired THEN ob.occ ELSE 0))
             \* (independent of the model: no read appears twice in the outputs, mates appear together)
             /\ RepK(e.id, "Occ.AtMostOnce", k, ob.occ <= 1 /\ ob.occ2 = (IF cfg.paired THEN ob.occ ELSE 0))
             /\ RepK(e.id, "PairSync", k, ~cfg.paired \/ (ob.dest2 = ob.dest /\ ob.pos2 = ob.pos1))
             /\ Has(e, "info") => InfoOK(e, k, cfg, rd, M)
             /\ Has(e, "aux") => AuxOK(e, k, cfg, rd, M)

\* ---- the reports (C04, C11, C16): sums over the model's reads ----
RECURSIVE SumTo(_, _)
SumTo(f, k) == IF k = 0 THEN 0 ELSE f[k] + SumTo(f, k - 1)
StatKey(f) == IF f = "untrimmed_output" THEN "discard_untrimmed" ELSE f
Cats == {"too_short", "too_long", "too_many_n", "too_many_expected_errors", "too_high_average_error_rate",
         "casava_filtered", "discard_trimmed", "discard_untrimmed"}

\* ---- the report against the *recorded* intermediate reads (no model involved): C04's "the quality-trimmed,
\* poly-A-trimmed and with-adapter counts equal the sums over the individual reads" ----
RECURSIVE RemovedBy(_, _, _, _, _)
RemovedBy(chain, labs, second, i, prevLen) ==          \* bases removed by the stages labelled in labs, for one mate
  IF i > Len(chain) THEN 0
  ELSE LET st == chain[i]
           lab == IF second THEN st.l2 ELSE st.l1
           len == IF second THEN Len(st.s2) ELSE Len(st.s1)
       IN (IF lab \in labs THEN prevLen - len ELSE 0) + RemovedBy(chain, labs, second, i + 1, len)
AllChains(e) == \A k \in 1..Len(e.reads) : e.reads[k].obs.chain # <<>>
HasMatchesRecorded(chain, second) ==
  \E i \in 1..Len(chain) : chain[i].hasm /\ (IF second THEN chain[i].m2 # <<>> ELSE chain[i].m1 # <<>>)
MatchesKnown(chain) == \A i \in 1..Len(chain) : (chain[i].l1 = "adapter" \/ chain[i].l2 = "adapter") => chain[i].hasm
CheckReportRecorded(e) ==
  LET rp == e.report
      cfg == e.cfg
      n == Len(e.reads)
      inLen(k, second) == IF second THEN Len(e.reads[k].in2.seq) ELSE Len(e.reads[k].in1.seq)
      qt(second) == SumTo([k \in 1..n |-> RemovedBy(e.reads[k].obs.chain, {"nextseq", "qtrim"}, second, 1, inLen(k, second))], n)
      pa(second) == SumTo([k \in 1..n |-> RemovedBy(e.reads[k].obs.chain, {"polya"}, second, 1, inLen(k, second))], n)
      wa(second) == Cardinality({k \in 1..n : HasMatchesRecorded(e.reads[k].obs.chain, second)})
  IN (n > 0 /\ AllChains(e)) =>
     /\ Rep(e.id, "Report.QualityTrimmedIsSumOverReads",
             (rp.qt1 >= 0 => rp.qt1 = qt(FALSE)) /\ ((cfg.paired /\ rp.qt2 >= 0) => rp.qt2 = qt(TRUE)))
     /\ Rep(e.id, "Report.PolyATrimmedIsSumOverReads",
             cfg.polya => (rp.pa1 = pa(FALSE) /\ (cfg.paired => rp.pa2 = pa(TRUE))))
     /\ Rep(e.id, "Report.WithAdaptersIsCountOverReads",
             (\A k \in 1..n : MatchesKnown(e.reads[k].obs.chain)) =>
                /\ (cfg.ads1 # <<>> => rp.with1 = wa(FALSE))
                /\ ((cfg.paired /\ cfg.ads2 # <<>>) => rp.with2 = wa(TRUE)))

CheckReport(e) ==
  LET rp == e.report
      cfg == e.cfg
      n == Len(e.reads)
      Ms == [k \in 1..n |-> Run(cfg, e.reads[k].table, e.reads[k].in1, e.reads[k].in2)]
      written(k) == CountsAsWritten(cfg, Ms[k].fate)
      Count(S) == Cardinality(S)
      cat(c) == Count({k \in 1..n : StatKey(Ms[k].fate) = c})
      qt(k, second) ==
        LET inp == IF second THEN e.reads[k].in2 ELSE e.reads[k].in1
            cuts == IF second THEN cfg.cut2 ELSE cfg.cut1
        IN Len(CutAll(inp, cuts, 1).seq) - Len(PreAdapter(cfg, inp, second).seq)
  IN /\ Rep(e.id, "Report.InputCount", rp.n_in = n)
     /\ Rep(e.id, "Report.Conservation", rp.n_in = rp.n_out + rp.filtered_sum)
     /\ Rep(e.id, "Report.WrittenCount", rp.n_out = Count({k \in 1..n : written(k)}))
     /\ Rep(e.id, "Report.WrittenMatchesFiles",
            rp.n_out = rp.files_written /\ rp.bp_out1 = rp.files_bp1 /\ rp.bp_out2 = rp.files_bp2)
     /\ Rep(e.id, "Report.WrittenBasePairs",
            /\ rp.bp_out1 = SumTo([k \in 1..n |-> IF written(k) THEN Len(Ms[k].o1.seq) ELSE 0], n)
            /\ rp.bp_out2 = SumTo([k \in 1..n |-> IF written(k) /\ cfg.paired THEN Len(Ms[k].o2.seq) ELSE 0], n))
     /\ Rep(e.id, "Report.InputBasePairs",
            /\ rp.bp_in1 = SumTo([k \in 1..n |-> Len(e.reads[k].in1.seq)], n)
            /\ rp.bp_in2 = SumTo([k \in 1..n |-> IF cfg.paired THEN Len(e.reads[k].in2.seq) ELSE 0], n))
     /\ \A c \in Cats :
           \* a category the run did not enable is reported as null (-1): then nothing may fall into it
           Rep(e.id, "Report.Category." \o c, IF rp.filtered[c] < 0 THEN cat(c) = 0 ELSE rp.filtered[c] = cat(c))
     /\ Rep(e.id, "Report.WithAdapters",
            /\ (cfg.ads1 # <<>> => rp.with1 = Count({k \in 1..n : Ms[k].ms1 # <<>>}))
            /\ (cfg.paired /\ cfg.ads2 # <<>> => rp.with2 = Count({k \in 1..n : Ms[k].ms2 # <<>>})))
     /\ Rep(e.id, "Report.QualityTrimmed",
            /\ (rp.qt1 >= 0 => rp.qt1 = SumTo([k \in 1..n |-> qt(k, FALSE)], n))
            /\ ((cfg.paired /\ rp.qt2 >= 0) => rp.qt2 = SumTo([k \in 1..n |-> qt(k, TRUE)], n))
            /\ ((cfg.q1.on \/ cfg.nextseq >= 0) => rp.qt1 >= 0))
     /\ Rep(e.id, "Report.PolyATrimmed",
            cfg.polya => /\ rp.pa1 = SumTo([k \in 1..n |-> Ms[k].pa1], n)
                         /\ (cfg.paired => rp.pa2 = SumTo([k \in 1..n |-> Ms[k].pa2], n)))
     /\ Rep(e.id, "Report.ReverseComplemented",
            (cfg.revcomp /\ (cfg.ads1 # <<>> \/ cfg.ads2 # <<>>)) => rp.rc = Count({k \in 1..n : Ms[k].isrc}))
     /\ Rep(e.id, "Report.TextFateEqualsJson", rp.text_ok)
     /\ Rep(e.id, "Report.MinimalEqualsJson", rp.minimal_ok)

\* ---- per-adapter statistics (C20) ----
\* observed per adapter: [id, fpresent, fmatches, fhist, bpresent, bmatches, bhist, badj, total, onrc,
\*                        franges, fnum, fden, feff, branges, bnum, bden, beff]; hist: Seq of <<len, errors, count>>
RangeAllowed(ranges, L) ==         \* number of errors the reported ranges allow at length L
  Cardinality({i \in 1..Len(ranges) : ranges[i] < L})
RangesOK(ranges, num, den, eff) ==
  ranges = <<>> \/ (/\ ranges[Len(ranges)] = eff
                   /\ \A L \in 1..eff : RangeAllowed(ranges, L) = (L * num) \div den)

CheckStatsSide(e, side, obsList, Ms) ==
  LET n == Len(e.reads)
      all == UNION {{<<k, x>> : x \in ReadTally(IF side = 1 THEN Ms[k].ms1 ELSE Ms[k].ms2,
                                                IF side = 1 THEN Ms[k].s1 ELSE Ms[k].s2)} : k \in 1..n}
      cnt(ad, end, len, errors) ==
        Cardinality({y \in all : y[2][2].ad = ad /\ y[2][2].end = end /\ y[2][2].len = len /\ y[2][2].errors = errors})
      endTotal(ad, end) == Cardinality({y \in all : y[2][2].ad = ad /\ y[2][2].end = end})
      adjCnt(ad, c) == Cardinality({y \in all : y[2][2].ad = ad /\ y[2][2].end = "b" /\ y[2][2].adj = c})
      keys(ad, end) == {<<y[2][2].len, y[2][2].errors>> : y \in {z \in all : z[2][2].ad = ad /\ z[2][2].end = end}}
      histOK(ad, end, hist) ==
        /\ {<<hist[i][1], hist[i][2]>> : i \in 1..Len(hist)} = keys(ad, end)
        /\ \A i \in 1..Len(hist) : hist[i][3] = cnt(ad, end, hist[i][1], hist[i][2])
      rcCount(ad) == Cardinality({<<k, j>> \in (1..n) \X (1..8) :
                                    LET ms == IF side = 1 THEN Ms[k].ms1 ELSE Ms[k].ms2 IN
                                    Ms[k].isrc /\ j <= Len(ms) /\ ms[j].ad = ad})
      tag == IF side = 1 THEN "Stats1." ELSE "Stats2."
  IN \A i \in 1..Len(obsList) :
       LET o == obsList[i] IN
       /\ RepK(e.id, tag \o "MatchesEqualTally", i,
               /\ o.fmatches = endTotal(o.id, "f") /\ o.bmatches = endTotal(o.id, "b")
               /\ o.total = o.fmatches + o.bmatches)
       /\ RepK(e.id, tag \o "HistogramByLengthAndErrors", i, histOK(o.id, "f", o.fhist) /\ histOK(o.id, "b", o.bhist))
       /\ RepK(e.id, tag \o "AdjacentBases", i,
               o.badj = <<adjCnt(o.id, 65), adjCnt(o.id, 67), adjCnt(o.id, 71), adjCnt(o.id, 84), adjCnt(o.id, 0)>>)
       /\ RepK(e.id, tag \o "OnReverseComplementCount", i, o.onrc < 0 \/ o.onrc = rcCount(o.id))
       /\ RepK(e.id, tag \o "AllowedErrorsAreFloorOfLTimesRate", i,
               RangesOK(o.franges, o.fnum, o.fden, o.feff) /\ RangesOK(o.branges, o.bnum, o.bden, o.beff))

CheckStats(e) ==
  LET n == Len(e.reads)
      Ms == [k \in 1..n |-> Run(e.cfg, e.reads[k].table, e.reads[k].in1, e.reads[k].in2)]
  IN CheckStatsSide(e, 1, e.stats1, Ms) /\ (e.cfg.paired => CheckStatsSide(e, 2, e.stats2, Ms))

\* ---- demultiplexing at the level of the run (C15): a file for every adapter name (name combination) even if
\* it stays empty; the records over all demultiplexed files are those of the same command without demultiplexing
CheckDemux(e) ==
  LET cfg == e.cfg
      dm == e.dmx
      names1 == {cfg.ads1[i].name : i \in 1..Len(cfg.ads1)}
      names2 == {cfg.ads2[i].name : i \in 1..Len(cfg.ads2)}
      expected == IF cfg.demux = "combi" THEN {<<a, b>> : a \in names1, b \in names2} ELSE {<<a, <<>>>> : a \in names1}
      created(fs) == {<<fs[i][1], fs[i][2]>> : i \in 1..Len(fs)}
  IN /\ Rep(e.id, "Demux.FileForEveryName",
             expected \subseteq created(dm.files1) /\ (cfg.paired => expected \subseteq created(dm.files2)))
     /\ dm.twin => Rep(e.id, "Demux.MultisetEqualsPlainRun", dm.demux1 = dm.main1 /\ (cfg.paired => dm.demux2 = dm.main2))

Check(e) ==
  LET miss == \E k \in 1..Len(e.reads) : Needs(e.cfg, e.reads[k].table, e.reads[k].in1, e.reads[k].in2) # {}
  IN /\ \A k \in 1..Len(e.reads) : CheckRead(e, k)
     /\ (Has(e, "report") /\ ~miss) => CheckReport(e)
     /\ Has(e, "report") => CheckReportRecorded(e)
     /\ (Has(e, "stats") /\ ~miss) => CheckStats(e)
     /\ (Has(e, "demux") /\ e.cfg.demux # "none") => CheckDemux(e)

Init == l = 1
\* (Check is compared with TRUE so that TLC evaluates it as one expression with short-circuit
\* semantics instead of splitting its disjunctions into separate successor computations)
Next == l <= Len(Trace) /\ (Check(Trace[l]) = TRUE) /\ l' = l + 1
Spec == Init /\ [][Next]_l
=============================================================================
