------------------------------ MODULE RunModel ------------------------------
(***************************************************************************)
(* One read (pair) through the whole reference model: modifiers in the       *)
(* documented order, info-file rows, fate and destination.  Built from       *)
(* Pipeline (stages, filters) and AdapterCutting (adapter stage over the     *)
(* sampled Locate table).                                                    *)
(***************************************************************************)
EXTENDS Pipeline

\* the interval of the stage's input that is left after the first k matches
RECURSIVE IntervalAfter(_, _, _, _, _)
IntervalAfter(ms, k, j, lo, hi) ==
  IF j > k THEN <<lo, hi>>
  ELSE LET r == RemainderOf(ms[j]) IN IntervalAfter(ms, k, j + 1, lo + r[1], lo + r[2])
\* the sequence round k searched (k = 1: the whole input of the stage)
SearchedInRound(searched, ms, k) ==
  LET iv == IntervalAfter(ms, k - 1, 1, 0, Len(searched)) IN Slice(searched, iv[1], iv[2])

RcSuffix == <<32, 114, 99>>        \* " rc"
AddRc(cfg, r, isrc) == IF isrc /\ cfg.rcsuffix THEN [r EXCEPT !.name = r.name \o RcSuffix] ELSE r

\* ---- adapter stage, single-end: [r, ms, isrc, hasrc, searched] ----
\* `searched` is the sequence the first round searched (orientation chosen), needed for info rows
StageSE(cfg, table, r) ==
  IF cfg.ads1 = <<>> THEN [r |-> r, ms |-> <<>>, isrc |-> FALSE, searched |-> r.seq]
  ELSE IF cfg.revcomp
  THEN LET x == CutRevComp(table, cfg.ads1, cfg.action, cfg.times, r) IN
       [r |-> AddRc(cfg, x[1], x[3]), ms |-> x[2], isrc |-> x[3],
        searched |-> Searched(cfg.action, IF x[3] THEN RevComp(r.seq) ELSE r.seq)]
  ELSE LET x == Cut1(table, cfg.ads1, cfg.action, cfg.times, r) IN
       [r |-> x[1], ms |-> x[2], isrc |-> FALSE, searched |-> Searched(cfg.action, r.seq)]

NeedsSE(cfg, table, r) ==
  IF cfg.ads1 = <<>> THEN {}
  ELSE IF cfg.revcomp THEN NeedsRevComp(table, cfg.ads1, cfg.action, cfg.times, r)
  ELSE NeedsCut1(table, cfg.ads1, cfg.action, cfg.times, r)

\* ---- adapter stage, paired-end: [r1, r2, ms1, ms2, isrc, s1, s2] ----
CutOrPass(table, ads, action, times, r) ==
  IF ads = <<>> THEN <<r, <<>>>> ELSE Cut1(table, ads, action, times, r)
NeedsCutOrPass(table, ads, action, times, r) ==
  IF ads = <<>> THEN {} ELSE NeedsCut1(table, ads, action, times, r)

RECURSIVE StagePE(_, _, _, _)
StagePE(cfg, table, r1, r2) ==
  IF cfg.ads1 = <<>> /\ cfg.ads2 = <<>>
  THEN [r1 |-> r1, r2 |-> r2, ms1 |-> <<>>, ms2 |-> <<>>, isrc |-> FALSE, s1 |-> r1.seq, s2 |-> r2.seq]
  ELSE IF cfg.pairads
  THEN LET bp == BestPair(table, cfg.ads1, cfg.ads2, r1.seq, r2.seq) IN
       IF ~IsMatch(bp[1])
       THEN [r1 |-> r1, r2 |-> r2, ms1 |-> <<>>, ms2 |-> <<>>, isrc |-> FALSE, s1 |-> r1.seq, s2 |-> r2.seq]
       ELSE [r1 |-> ApplyOne(cfg.action, r1, bp[1]), r2 |-> ApplyOne(cfg.action, r2, bp[2]),
             ms1 |-> <<bp[1]>>, ms2 |-> <<bp[2]>>, isrc |-> FALSE, s1 |-> r1.seq, s2 |-> r2.seq]
  ELSE IF cfg.revcomp /\ cfg.action = "lowercase" /\ (r1.seq # UpperSeq(r1.seq) \/ r2.seq # UpperSeq(r2.seq))
  \* with --revcomp every mate is examined by some cutter, and the lowercase action upper-cases what it examines
  THEN StagePE(cfg, table, [r1 EXCEPT !.seq = UpperSeq(r1.seq)], [r2 EXCEPT !.seq = UpperSeq(r2.seq)])
  ELSE LET a1 == CutOrPass(table, cfg.ads1, cfg.action, cfg.times, r1)
           a2 == CutOrPass(table, cfg.ads2, cfg.action, cfg.times, r2)
       IN IF ~cfg.revcomp
          THEN [r1 |-> a1[1], r2 |-> a2[1], ms1 |-> a1[2], ms2 |-> a2[2], isrc |-> FALSE,
                s1 |-> Searched(cfg.action, r1.seq), s2 |-> Searched(cfg.action, r2.seq)]
          ELSE LET b1 == CutOrPass(table, cfg.ads1, cfg.action, cfg.times, r2)     \* R1 adapters on R2 ...
                   b2 == CutOrPass(table, cfg.ads2, cfg.action, cfg.times, r1)     \* ... and vice versa
                   un == SumScores(a1[2], 1) + SumScores(a2[2], 1)
                   sw == SumScores(b1[2], 1) + SumScores(b2[2], 1)
                   useRc == (b1[2] # <<>> \/ b2[2] # <<>>) /\ sw > un
               IN IF useRc
                  THEN [r1 |-> AddRc(cfg, b1[1], TRUE), r2 |-> AddRc(cfg, b2[1], TRUE), ms1 |-> b1[2], ms2 |-> b2[2],
                        isrc |-> TRUE, s1 |-> Searched(cfg.action, r2.seq), s2 |-> Searched(cfg.action, r1.seq)]
                  ELSE [r1 |-> a1[1], r2 |-> a2[1], ms1 |-> a1[2], ms2 |-> a2[2], isrc |-> FALSE,
                        s1 |-> Searched(cfg.action, r1.seq), s2 |-> Searched(cfg.action, r2.seq)]

NeedsPE(cfg, table, r1, r2) ==
  IF cfg.pairads THEN NeedsPair(table, cfg.ads1, cfg.ads2, r1.seq, r2.seq)
  ELSE NeedsCutOrPass(table, cfg.ads1, cfg.action, cfg.times, r1)
       \cup NeedsCutOrPass(table, cfg.ads2, cfg.action, cfg.times, r2)
       \cup (IF cfg.revcomp THEN NeedsCutOrPass(table, cfg.ads1, cfg.action, cfg.times, r2)
                                  \cup NeedsCutOrPass(table, cfg.ads2, cfg.action, cfg.times, r1) ELSE {})

\* ---- renaming ----
SubEnvToken(t, e1, e2, own) ==
  \* tokens "r1.x" / "r2.x" are given as [k |-> x, v |-> <<>>, side |-> 1 | 2]; side 0 = own mate
  TokenValue(t, IF t.side = 1 THEN e1 ELSE IF t.side = 2 THEN e2 ELSE own)
RECURSIVE Expand2(_, _, _, _, _)
Expand2(tokens, e1, e2, own, k) ==
  IF k > Len(tokens) THEN <<>> ELSE SubEnvToken(tokens[k], e1, e2, own) \o Expand2(tokens, e1, e2, own, k + 1)

\* ---- the whole model for one single-end read ----
RunSE(cfg, table, input) ==
  LET pre == PreAdapter(cfg, input, FALSE)
      st == StageSE(cfg, table, pre)
      post == PostAdapterSeq(cfg, st.r, FALSE)
      env0 == NameEnv(post.name, cfg, input, FALSE, st.ms, st.isrc,
                      SearchedInRound(st.searched, st.ms, Len(st.ms)), 1)
      named == PostNames1(cfg, post, env0)
      env == [env0 EXCEPT !.header = named.name]
      final == IF cfg.rename = <<>> THEN named ELSE [named EXCEPT !.name = Expand2(cfg.rename, env, env, env, 1)]
      fate == Fate(cfg, final, final, st.ms # <<>>, FALSE)
  IN [o1 |-> final, o2 |-> final, ms1 |-> st.ms, ms2 |-> <<>>, isrc |-> st.isrc, fate |-> fate,
      dest |-> Destination(cfg, fate, st.ms, <<>>), pre1 |-> pre, s1 |-> st.searched, s2 |-> <<>>,
      pa1 |-> IF cfg.polya THEN Len(st.r.seq) - Len(PolyAStage(st.r, FALSE).seq) ELSE 0, pa2 |-> 0]

RunPE(cfg, table, in1, in2) ==
  LET p1 == PreAdapter(cfg, in1, FALSE)
      p2 == PreAdapter(cfg, in2, TRUE)
      st == StagePE(cfg, table, p1, p2)
      q1 == PostAdapterSeq(cfg, st.r1, FALSE)
      q2 == PostAdapterSeq(cfg, st.r2, TRUE)
      \* after a swap, mate 1 descends from input mate 2: cut_prefix etc. belong to the info object of the slot
      e1 == NameEnv(q1.name, cfg, in1, FALSE, st.ms1, st.isrc, SearchedInRound(st.s1, st.ms1, Len(st.ms1)), 1)
      e2 == NameEnv(q2.name, cfg, in2, TRUE, st.ms2, st.isrc, SearchedInRound(st.s2, st.ms2, Len(st.ms2)), 2)
      n1 == PostNames1(cfg, q1, e1)
      n2 == PostNames1(cfg, q2, e2)
      f1 == [e1 EXCEPT !.header = n1.name]
      f2 == [e2 EXCEPT !.header = n2.name]
      o1 == IF cfg.rename = <<>> THEN n1 ELSE [n1 EXCEPT !.name = Expand2(cfg.rename, f1, f2, f1, 1)]
      o2 == IF cfg.rename = <<>> THEN n2 ELSE [n2 EXCEPT !.name = Expand2(cfg.rename, f1, f2, f2, 1)]
      fate == Fate(cfg, o1, o2, st.ms1 # <<>>, st.ms2 # <<>>)
  IN [o1 |-> o1, o2 |-> o2, ms1 |-> st.ms1, ms2 |-> st.ms2, isrc |-> st.isrc, fate |-> fate,
      dest |-> Destination(cfg, fate, st.ms1, st.ms2), pre1 |-> p1, s1 |-> st.s1, s2 |-> st.s2,
      pa1 |-> IF cfg.polya THEN Len(st.r1.seq) - Len(PolyAStage(st.r1, FALSE).seq) ELSE 0,
      pa2 |-> IF cfg.polya THEN Len(st.r2.seq) - Len(PolyAStage(st.r2, TRUE).seq) ELSE 0]

Needs(cfg, table, in1, in2) ==
  IF cfg.paired THEN NeedsPE(cfg, table, PreAdapter(cfg, in1, FALSE), PreAdapter(cfg, in2, TRUE))
  ELSE NeedsSE(cfg, table, PreAdapter(cfg, in1, FALSE))
Run(cfg, table, in1, in2) == IF cfg.paired THEN RunPE(cfg, table, in1, in2) ELSE RunSE(cfg, table, in1)

\* ---- the auxiliary files --rest-file and --wildcard-file (written for R1 / the single read) ----
\* Both describe the LAST applied match of the read (not defined for linked adapters).
\* rest: the part of the searched read that the match cuts off on the far side of the adapter (before a 5' match,
\*       after a 3' match); a line "rest name" is written only if it is not empty.
\* wildcards: for every N of the aligned adapter stretch, the read base at the same offset from the start of the
\*       match (no indel bookkeeping, as documented); a line "wildcards name" for every read with a match.
AuxPart(m) == IF m.hasF THEN m.f ELSE m.b
AuxRest(m, searched) ==
  IF m.hasF THEN Slice(searched, 0, m.f.rs) ELSE Slice(searched, m.b.re, Len(searched))
RECURSIVE WildFrom(_, _, _, _)
WildFrom(p, aseq, searched, i) ==
  IF i >= p.ae - p.as THEN <<>>
  ELSE (IF aseq[p.as + i + 1] = 78 /\ p.rs + i < Len(searched) THEN <<searched[p.rs + i + 1]>> ELSE <<>>)
       \o WildFrom(p, aseq, searched, i + 1)
AuxWild(m, aseq, searched) == WildFrom(AuxPart(m), aseq, searched, 0)

\* ---- per-adapter tallies over the applied matches (C20) ----
\* For the k-th applied match of a read: the entries it contributes, as records
\*   [ad, end ("f" | "b"), len (removed length), errors, adj (adjacent base code or 0)]
AdjBase(s, rs) == IF rs = 0 THEN 0 ELSE IF s[rs] \in {65, 67, 71, 84} THEN s[rs] ELSE 0
TallyOfMatch(m, searchedK) ==
  (IF m.hasF THEN {[ad |-> m.ad, end |-> "f", len |-> m.f.re, errors |-> m.f.errors, adj |-> 0]} ELSE {})
  \cup (IF m.hasB
        THEN LET s2 == IF m.hasF THEN Slice(searchedK, m.f.re, Len(searchedK)) ELSE searchedK
             IN {[ad |-> m.ad, end |-> "b", len |-> m.b.len - m.b.rs, errors |-> m.b.errors, adj |-> AdjBase(s2, m.b.rs)]}
        ELSE {})
\* all entries of one read, tagged with the round so that equal entries stay distinct: <<round, entry>>
ReadTally(ms, searched) ==
  UNION {{<<k, t>> : t \in TallyOfMatch(ms[k], SearchedInRound(searched, ms, k))} : k \in 1..Len(ms)}

\* ---- info-file rows the property prescribes for mate 1 (C17) ----
\* a part row: [suffix, errors, rs, re, name]; parts of round k refer to the sequence left by round k-1
PartRows(m) ==
  IF ~m.linked THEN <<[sfx |-> <<>>, part |-> IF m.hasF THEN m.f ELSE m.b, front |-> m.hasF, name |-> m.name]>>
  ELSE (IF m.hasF THEN <<[sfx |-> <<59, 49>>, part |-> m.f, front |-> TRUE, name |-> m.name \o <<59, 49>>]>> ELSE <<>>)
       \o (IF m.hasB THEN <<[sfx |-> <<59, 50>>, part |-> m.b, front |-> FALSE, name |-> m.name \o <<59, 50>>]>> ELSE <<>>)
RECURSIVE AllPartRows(_, _)
AllPartRows(ms, k) == IF k > Len(ms) THEN <<>> ELSE PartRows(ms[k]) \o AllPartRows(ms, k + 1)
=============================================================================
