---------------------------- MODULE Trace_Runner ----------------------------
(* Trace specification for C06 / C12: event logs of the real runners.py (one JSON object per
   run: nw, nc, fault kinds that may have been injected, the totally ordered hook events of a
   run under the virtual scheduler, or a linearisation of per-process logs) are validated as
   behaviours of Runner.  Every event must be explained by the corresponding Runner action with
   the logged arguments bound (chunk, worker, ready list, writer position and pending set);
   the fault itself is not logged and is inferred by TLC.  Every Runner invariant is evaluated
   in every state of the reconstructed behaviour (see Trace_Runner.cfg).
   Accepted runs print <<"ACC", id>>; a run for which no behaviour exists prints
   <<"REJ", id, index of the first unexplained event, event name>>. *)
EXTENDS Runner, Json, IOUtils
VARIABLES l, i
Trace == ndJsonDeserialize(IOEnv.TRACE_FILE)
tvars == <<vars, l, i>>

Events(t) == Trace[t].events
KindsOf(t) == {Trace[t].kinds[k] : k \in 1..Len(Trace[t].kinds)}
SetOf(s) == {s[k] : k \in 1..Len(s)}

Match(e) ==
  CASE e.ev = "r_fmt"      -> RFormat
    [] e.ev = "r_fmt_fail" -> RFormatFail
    [] e.ev = "r_fail"     -> RFail
    [] e.ev = "r_send"     -> RSend /\ last' = <<"RSend", e.chunk, e.worker>>
    [] e.ev = "r_pill"     -> RPill /\ last' = <<"RPill", e.worker>>
    [] e.ev = "r_done"     -> RDone
    [] e.ev = "w_ask"      -> e.worker \in Workers /\ WAsk(e.worker)
    [] e.ev = "w_res"      -> e.worker \in Workers /\ WRecv(e.worker) /\ last' = <<"WRes", e.worker, e.chunk>>
    [] e.ev = "w_stats"    -> e.worker \in Workers /\ WRecv(e.worker) /\ last' = <<"WStats", e.worker>>
    [] e.ev = "w_exc"      -> e.worker \in Workers /\ WRecv(e.worker) /\ last' = <<"WExc", e.worker>>
    [] e.ev = "m_fmt"      -> MFormat /\ last' = <<"MFormat">>
    [] e.ev = "m_exc"      -> (MFormat \/ MProc) /\ last' = <<"MExc">>
    [] e.ev = "m_start"    -> MStart
    [] e.ev = "m_wait"     -> MWait /\ ready' = e.ready
    [] e.ev = "m_res"      -> /\ MProc /\ last' = <<"MRes", e.worker, e.chunk>>
                              /\ (e.cur0 >= 0 => (cur' = e.cur0 /\ pend' = SetOf(e.pend0)))
    [] e.ev = "m_stats"    -> MProc /\ last' = <<"MStats", e.worker>>
    [] e.ev = "m_done"     -> MFinish
    [] OTHER               -> FALSE

\* what the run reported must agree with where the specification ended up
EndOK(t) == /\ Trace[t].exit = 0 => mpc = "done"
            /\ Trace[t].exit # 0 => mpc # "done"

Reinit(t) == IF t <= Len(Trace)
             THEN ReinitWith(Trace[t].nw, Trace[t].nc, KindsOf(t))
             ELSE UNCHANGED vars

TInit == l = 1 /\ i = 1 /\ InitWith(Trace[1].nw, Trace[1].nc, KindsOf(1))

Step == /\ l <= Len(Trace) /\ i <= Len(Events(l))
        /\ Match(Events(l)[i]) /\ i' = i + 1 /\ l' = l

Accept == /\ l <= Len(Trace) /\ i > Len(Events(l))
          /\ IF EndOK(l) THEN PrintT(<<"ACC", Trace[l].id>>)
                         ELSE PrintT(<<"REJ", Trace[l].id, i, "end state: exit status vs. specification">>)
          /\ l' = l + 1 /\ i' = 1 /\ Reinit(l + 1)

Reject == /\ l <= Len(Trace) /\ i <= Len(Events(l))
          /\ ~ENABLED (Match(Events(l)[i]) /\ i' = i + 1 /\ l' = l)
          /\ PrintT(<<"REJ", Trace[l].id, i, Events(l)[i].ev>>)
          /\ l' = l + 1 /\ i' = 1 /\ Reinit(l + 1)

TNext == Step \/ Accept \/ Reject
TSpec == TInit /\ [][TNext]_tvars
=============================================================================
