--------------------------- MODULE MC_AdapterMatch ---------------------------
(* Exhaustive small-scope checks of the AdapterMatch / EditDist definitions themselves
   (the oracle of C01/C02 must not be wrong):
     - row-folding ED == declarative ED;
     - the per-rule candidate enumeration == the placement-filtered set;
     - the semi-global DP used for completeness with indels == "there is an occurrence
       <<as,ae,rs,re>> admitted by the rule whose edit distance is within tolerance";
     - Hamming-admissible implies indel-admissible; exact implies admissible. *)
EXTENDS AdapterMatch, TLC
CONSTANTS AAlpha, RAlpha, MaxA, MaxR, Rates, Ovls
VARIABLES st, rule, a, r, rate, ovl, aw
vars == <<st, rule, a, r, rate, ovl, aw>>
RatesQuick == {<<0, 1>>, <<1, 3>>, <<1, 2>>}
RatesThorough == {<<0, 1>>, <<1, 4>>, <<1, 3>>, <<1, 2>>}

AStr == UNION {[1..k -> AAlpha] : k \in 1..MaxA}
RStr == UNION {[1..k -> RAlpha] : k \in 0..MaxR}
\* TLC generates initial states sequentially; choosing the read in a Next step spreads the work
\* over all workers.
Init == /\ st = "start" /\ rule \in Rules /\ a \in AStr /\ r = <<>> /\ rate \in Rates /\ ovl \in Ovls
        /\ aw \in BOOLEAN
Next == /\ st = "start" /\ st' = "chosen" /\ r' \in RStr
        /\ UNCHANGED <<rule, a, rate, ovl, aw>>
Spec == Init /\ [][Next]_vars

Cfg(ind) == [rule |-> rule, num |-> rate[1], den |-> rate[2], ovl |-> ovl,
             aw |-> (aw /\ \E i \in 1..Len(a) : a[i] \notin {65, 67, 71, 84}), rw |-> FALSE, indels |-> ind]

EDIsDecl == ED(a, r, Cfg(TRUE).aw, FALSE) = DeclED(a, r, Cfg(TRUE).aw, FALSE)
CandsAreFiltered == GapFreeCands(rule, Len(a), Len(r)) = FilteredCands(rule, Len(a), Len(r))

DeclAdmissible(cfg) ==
  \E as \in 0..Len(a), rs \in 0..Len(r) : \E ae \in as..Len(a), re \in rs..Len(r) :
     /\ Placement(cfg.rule, Len(a), Len(r), as, ae, rs, re)
     /\ ae - as >= EffOvl(cfg, Len(a))
     /\ ED(Slice(a, as, ae), Slice(r, rs, re), cfg.aw, cfg.rw) * cfg.den <= EffLen(a, as, ae, cfg.aw) * cfg.num

SemiGlobalIsDecl ==
  LET cfg == Cfg(TRUE) IN
  /\ rule \in {"Back", "BackNI", "Suffix", "Prefix"} => (IndelAdmissibleExists(cfg, a, r) <=> DeclAdmissible(cfg))
  /\ rule = "RightmostFront" =>
        (IndelAdmissibleExists(AsBack(cfg), Reverse(a), Reverse(r)) <=> DeclAdmissible(cfg))

GapFreeImpliesIndel ==
  rule \in {"Back", "BackNI", "Suffix", "Prefix"} =>
     (GapFreeAdmissibleExists(Cfg(FALSE), a, r) => IndelAdmissibleExists(Cfg(TRUE), a, r))
ExactImpliesAdmissible == ExactOccurrenceExists(Cfg(FALSE), a, r) => GapFreeAdmissibleExists(Cfg(FALSE), a, r)
=============================================================================
