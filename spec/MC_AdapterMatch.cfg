\* quick: adapters over {A,C,N} length 1..3, reads over {A,C,a} length 0..4
CONSTANTS
  AAlpha = {65, 67, 78}
  RAlpha = {65, 67, 97}
  MaxA = 3
  MaxR = 3
  Rates <- RatesQuick
  Ovls = {1, 2}
SPECIFICATION Spec
INVARIANT EDIsDecl
INVARIANT CandsAreFiltered
INVARIANT SemiGlobalIsDecl
INVARIANT GapFreeImpliesIndel
INVARIANT ExactImpliesAdmissible
CHECK_DEADLOCK FALSE
