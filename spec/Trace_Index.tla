----------------------------- MODULE Trace_Index -----------------------------
(* Trace specification for C08: observations of AdapterCutter(index=True) against
   AdapterCutter(index=False) on the same anchored adapters and read, for every order of the
   adapter list.  e.ads: [seq, k, indels]; e.prefix: anchored 5' (TRUE) or 3' (FALSE);
   e.res / e.seqres: [found, ad (1-based position in e.ads, 0 if none), rs, re, errors] from the
   indexed / the one-by-one search; e.perms: results of the indexed search for the other orders,
   with the adapter given by its position in e.ads. *)
EXTENDS TraceIO, EditDist, FiniteSets
VARIABLE l

N == 78
NFree(r) == \A i \in 1..Len(r) : Upper(r[i]) # N
AffixOf(r, L, prefix) == IF prefix THEN SubSeq(r, 1, L) ELSE SubSeq(r, Len(r) - L + 1, Len(r))
DistTo(a, s) == IF a.indels THEN ED(a.seq, s, FALSE, FALSE)
                ELSE IF Len(s) = Len(a.seq) THEN Hamming(a.seq, s, FALSE, FALSE) ELSE 1000
Occurs(a, r, prefix) == \E L \in 0..Len(r) : DistTo(a, AffixOf(r, L, prefix)) <= a.k

Sound(e, res) ==
  res.found =>
    /\ res.ad >= 1 /\ res.ad <= Len(e.ads)
    /\ 0 <= res.rs /\ res.rs <= res.re /\ res.re <= Len(e.r)
    /\ (IF e.prefix THEN res.rs = 0 ELSE res.re = Len(e.r))
    /\ LET a == e.ads[res.ad] IN
       /\ res.errors = DistTo(a, SubSeq(e.r, res.rs + 1, res.re))
       /\ res.errors <= a.k

EqualLengthNoIndels(e) == \A i \in 1..Len(e.ads) : ~e.ads[i].indels /\ Len(e.ads[i].seq) = Len(e.ads[1].seq)
\* the anchored end is not equally close to its two nearest adapters
NearestDistinct(e) ==
  LET m == Len(e.ads[1].seq)
      af == AffixOf(e.r, m, e.prefix)
      d(i) == Hamming(e.ads[i].seq, af, FALSE, FALSE)
      best == CHOOSE i \in 1..Len(e.ads) : \A j \in 1..Len(e.ads) : d(i) <= d(j)
  IN \A j \in 1..Len(e.ads) : j # best => d(j) > d(best)
SideConditions(e) == EqualLengthNoIndels(e) /\ NFree(e.r) /\ (Len(e.r) < Len(e.ads[1].seq) \/ NearestDistinct(e))

\* Known class (see known_findings.json): adapters with different tolerances.  The adapter nearest to the
\* anchored end is out of its own tolerance, and two adapters that are within theirs are equally close:
\* the index treats the string as ambiguous and reports nothing, one-by-one search takes the first.
TieAmongTolerantOnly(e) ==
  LET m == Len(e.ads[1].seq)
      af == AffixOf(e.r, m, e.prefix)
      d(i) == Hamming(e.ads[i].seq, af, FALSE, FALSE)
      tol == {i \in 1..Len(e.ads) : d(i) <= e.ads[i].k}
      nearest == CHOOSE i \in 1..Len(e.ads) : \A j \in 1..Len(e.ads) : d(i) <= d(j)
  IN /\ Len(e.r) >= m /\ nearest \notin tol /\ tol # {}
     /\ LET b == CHOOSE i \in tol : \A j \in tol : d(i) <= d(j) IN Cardinality({j \in tol : d(j) = d(b)}) >= 2
     /\ ~e.res.found /\ e.seqres.found

SameVerdict(x, y) == x.found = y.found /\ (x.found => x.ad = y.ad /\ x.rs = y.rs /\ x.re = y.re /\ x.errors = y.errors)

Check(e) ==
  LET occ == {i \in 1..Len(e.ads) : Occurs(e.ads[i], e.r, e.prefix)} IN
  /\ Rep(e.id, "IndexedMatchSound", Sound(e, e.res))
  /\ Rep(e.id, "UniqueOccurrenceFound", (NFree(e.r) /\ Cardinality(occ) = 1) => (e.res.found /\ e.res.ad \in occ))
  /\ IF SideConditions(e) /\ ~SameVerdict(e.res, e.seqres) /\ TieAmongTolerantOnly(e)
     THEN Rep(e.id, "AgreesWithOneByOne.TieAmongTolerantAdaptersWhileNearestIsOutOfTolerance", FALSE)
     ELSE Rep(e.id, "AgreesWithOneByOne", SideConditions(e) => SameVerdict(e.res, e.seqres))
  /\ Rep(e.id, "OrderIndependence",
         (SideConditions(e) \/ (NFree(e.r) /\ Cardinality(occ) = 1)) =>
            \A p \in 1..Len(e.perms) : e.perms[p].found = e.res.found /\ (e.res.found => e.perms[p].ad = e.res.ad))
  /\ Rep(e.id, "IndexedMatchSoundInEveryOrder", \A p \in 1..Len(e.perms) : Sound(e, e.perms[p]))

Init == l = 1
Next == l <= Len(Trace) /\ (Check(Trace[l]) = TRUE) /\ l' = l + 1
Spec == Init /\ [][Next]_l
=============================================================================
