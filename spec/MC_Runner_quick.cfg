\* quick: 2 workers, 3 chunks, every fault kind and position; safety + liveness
CONSTANTS
  NW = 2
  NC = 3
  Kinds = {"none", "badchunk", "readerfail", "startfail"}
SPECIFICATION Spec
VIEW View
INVARIANT TypeOK
INVARIANT OrderedPrefix
INVARIANT EachChunkOnce
INVARIANT StatsOncePerWorker
INVARIANT OkMeansComplete
INVARIANT FaultNeverOk
INVARIANT WriterNeverAhead
PROPERTY Live
CHECK_DEADLOCK TRUE
