CONSTANTS
  MaxR = 7
SPECIFICATION Spec
INVARIANT ConformanceReport
CHECK_DEADLOCK FALSE
