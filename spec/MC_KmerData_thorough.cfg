CONSTANTS
  MaxR = 8
SPECIFICATION Spec
INVARIANT ConformanceReport
CHECK_DEADLOCK FALSE
