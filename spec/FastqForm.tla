----------------------------- MODULE FastqForm -----------------------------
(* Well-formedness of (possibly damaged) FASTQ input, decided on its line structure (C12).
   `lines` is the file split at newline characters (a final line without newline counts as a
   line; an empty file has no lines).  A zero-length file is a valid empty input. *)
EXTENDS Integers, Sequences, FiniteSets
At == 64      \* "@"
Plus == 43    \* "+"

RecordOK(lines, k) ==        \* record number k (0-based) occupies lines 4k+1 .. 4k+4
  /\ Len(lines[4 * k + 1]) >= 1 /\ lines[4 * k + 1][1] = At
  /\ Len(lines[4 * k + 3]) >= 1 /\ lines[4 * k + 3][1] = Plus
  /\ Len(lines[4 * k + 2]) = Len(lines[4 * k + 4])

WellFormed(lines) ==
  /\ Len(lines) % 4 = 0
  /\ \A k \in 0..((Len(lines) \div 4) - 1) : RecordOK(lines, k)
NumRecords(lines) == Len(lines) \div 4

\* read id: header without "@", up to the first blank; a trailing /1 or /2 is ignored when mates
\* are compared
RECURSIVE IdEnd(_, _)
IdEnd(h, i) == IF i > Len(h) \/ h[i] = 32 \/ h[i] = 9 THEN i - 1 ELSE IdEnd(h, i + 1)
ReadId(h) == LET e == IdEnd(h, 2) IN SubSeq(h, 2, e)
StripMate(id) ==
  IF Len(id) >= 2 /\ id[Len(id) - 1] = 47 /\ id[Len(id)] \in {49, 50, 51} THEN SubSeq(id, 1, Len(id) - 2) ELSE id
MatesMatch(l1, l2) ==
  /\ NumRecords(l1) = NumRecords(l2)
  /\ \A k \in 0..(NumRecords(l1) - 1) : StripMate(ReadId(l1[4 * k + 1])) = StripMate(ReadId(l2[4 * k + 1]))

WellFormedPair(l1, l2) == WellFormed(l1) /\ WellFormed(l2) /\ MatesMatch(l1, l2)

\* one interleaved file: records 2j and 2j+1 are the mates of pair j
WellFormedInterleaved(l) ==
  /\ WellFormed(l) /\ NumRecords(l) % 2 = 0
  /\ \A j \in 0..((NumRecords(l) \div 2) - 1) : StripMate(ReadId(l[8 * j + 1])) = StripMate(ReadId(l[8 * j + 5]))

IsPrefixOf(s, t) == Len(s) <= Len(t) /\ \A i \in 1..Len(s) : s[i] = t[i]
=============================================================================
