----------------------------- MODULE KmerFilter -----------------------------
(***************************************************************************)
(* The k-mer presence prefilter (C07).                                      *)
(*                                                                          *)
(*  - Window / Present: the semantics of KmerFinder.kmers_present: a search  *)
(*    set is <<start, stop, kmers>> (negative values relative to the read    *)
(*    end, stop = 0 "to the end"); it is satisfied when some k-mer occurs    *)
(*    completely inside its window.                                          *)
(*  - BackOverlapSets / PositionsAndKmers: transcription of                  *)
(*    kmer_heuristic.create_back_overlap_searchsets / create_positions_and_  *)
(*    kmers (before the redundancy minimisation, which only merges windows   *)
(*    of equal k-mers into their hull and therefore only weakens the filter).*)
(*    Widen = TRUE models the repaired construction: overlap windows are     *)
(*    enlarged by the number of errors allowed in them, as needed when       *)
(*    insertions are possible.                                               *)
(*  - PrefilterSafe: every admissible occurrence implies presence.           *)
(***************************************************************************)
EXTENDS AdapterMatch

\* ---- kmers_present ------------------------------------------------------
WindowOf(start, stop, n) ==
  \* returns <<lo, hi>> or <<0, 0>> when the search is skipped
  LET lo == IF start < 0 THEN Max2(n + start, 0) ELSE start
      hi == IF stop < 0 THEN n + stop ELSE IF stop = 0 THEN n ELSE Min2(stop, n)
  IN IF start > n \/ hi <= lo THEN <<0, 0>> ELSE <<lo, hi>>

RECURSIVE KmerAt(_, _, _, _, _, _)
KmerAt(kmer, r, pos, aw, rw, i) ==
  i > Len(kmer) \/ (CharMatch(kmer[i], r[pos + i], aw, rw) /\ KmerAt(kmer, r, pos, aw, rw, i + 1))

SetPresent(ss, r, aw, rw) ==
  LET w == WindowOf(ss[1], ss[2], Len(r)) IN
  \E kmer \in ss[3] : \E p \in w[1]..(w[2] - Len(kmer)) : KmerAt(kmer, r, p, aw, rw, 1)

Present(sets, r, aw, rw) == \E ss \in sets : SetPresent(ss, r, aw, rw)

\* ---- construction (transcribed) ------------------------------------------
Prefix(s, k) == SubSeq(s, 1, Min2(k, Len(s)))

\* kmer_chunks: partition into `c` almost equal chunks, the longer ones first
RECURSIVE ChunksFrom(_, _, _, _, _)
ChunksFrom(s, size, rem, left, off) ==
  IF left = 0 THEN {}
  ELSE LET sz == IF rem > 0 THEN size + 1 ELSE size
       IN {SubSeq(s, off + 1, off + sz)} \cup ChunksFrom(s, size, IF rem > 0 THEN rem - 1 ELSE 0, left - 1, off + sz)
KmerChunks(s, c) == ChunksFrom(s, Len(s) \div c, Len(s) % c, c, 0)

\* error_lengths: <<e, longest prefix length that allows at most e errors>>, e = 0 .. floor(m * rate)
MaxErr(m, num, den) == (m * num) \div den
LenFor(e, m, num, den) ==
  LET S == {i \in 0..m : (i * num) \div den <= e} IN CHOOSE x \in S : \A y \in S : y <= x
ErrorLengths(m, num, den) == [e \in 0..MaxErr(m, num, den) |-> LenFor(e, m, num, den)]

\* (function-indexed version, since ErrorLengths is a function on 0..E)
RECURSIVE BackSets(_, _, _, _, _, _, _)
BackSets(a, el, E, e, minlen, widen, acc) ==
  IF e > E THEN acc
  ELSE LET length == el[e] IN
       IF minlen > length THEN BackSets(a, el, E, e + 1, minlen, widen, acc)
       ELSE LET small == IF e = 0 /\ minlen < 5
                         THEN {<<-i, 0, {Prefix(a, i)}>> : i \in minlen..4} ELSE {}
                ml == IF e = 0 /\ minlen < 5 THEN 5 ELSE minlen
                extra == IF widen THEN e ELSE 0
                main == <<-(length + extra), 0, KmerChunks(Prefix(a, ml), e + 1)>>
            IN BackSets(a, el, E, e + 1, length + 1, widen, acc \cup small \cup {main})

BackOverlapSets(a, ovl, num, den, widen) ==
  BackSets(a, ErrorLengths(Len(a), num, den), MaxErr(Len(a), num, den), 0, ovl, widen, {})

ReverseSet(S) == {Reverse(k) : k \in S}
FrontOverlapSets(a, ovl, num, den, widen) ==
  {<<0, -ss[1], ReverseSet(ss[3])>> : ss \in BackOverlapSets(Reverse(a), ovl, num, den, widen)}

PositionsAndKmers(a, ovl, num, den, back, front, internal, widen) ==
  (IF back THEN BackOverlapSets(a, ovl, num, den, widen) ELSE {})
  \cup (IF front THEN FrontOverlapSets(a, ovl, num, den, widen) ELSE {})
  \cup (IF internal THEN {<<0, 0, KmerChunks(a, MaxErr(Len(a), num, den) + 1)>>} ELSE {})

\* which sets each adapter type asks for (adapters.py), as <<back, front, internal>>
SetsWanted(typ) ==
  CASE typ = "Back"           -> <<TRUE, FALSE, TRUE>>
    [] typ = "Front"          -> <<FALSE, TRUE, TRUE>>
    [] typ = "RightmostFront" -> <<TRUE, FALSE, TRUE>>      \* on the reversed adapter and read
    [] typ = "Anywhere"       -> <<TRUE, TRUE, TRUE>>
    [] typ = "FrontNI"        -> <<FALSE, TRUE, FALSE>>
    [] typ = "BackNI"         -> <<TRUE, FALSE, FALSE>>
    [] typ = "Prefix"         -> <<FALSE, TRUE, FALSE>>
    [] typ = "Suffix"         -> <<TRUE, FALSE, FALSE>>

\* ---- the design theorem ----------------------------------------------------
DeclAdmissible(cfg, a, r) ==
  \E as \in 0..Len(a), rs \in 0..Len(r) : \E ae \in as..Len(a), re \in rs..Len(r) :
     /\ Placement(cfg.rule, Len(a), Len(r), as, ae, rs, re)
     /\ ae - as >= EffOvl(cfg, Len(a))
     /\ (cfg.indels \/ ae - as = re - rs)
     /\ Dist(cfg, a, r, as, ae, rs, re) * cfg.den <= EffLen(a, as, ae, cfg.aw) * cfg.num

\* a read that can be aligned *inside* the adapter (neither adapter end involved): outside the
\* scope of k-mer windows; the repaired code bypasses the prefilter for reads shorter than
\* |adapter| + max errors when the adapter may match anywhere.
Bypass(cfg, a, r, guard) == guard /\ cfg.rule = "Anywhere" /\ Len(r) < Len(a) + MaxErr(Len(a), cfg.num, cfg.den)

PrefilterSafe(cfg, a, r, sets, guard) ==
  DeclAdmissible(cfg, a, r) => (Bypass(cfg, a, r, guard) \/ Present(sets, r, cfg.aw, cfg.rw))
=============================================================================
