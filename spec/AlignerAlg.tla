----------------------------- MODULE AlignerAlg -----------------------------
(***************************************************************************)
(* The alignment algorithm itself, transcribed from Aligner.locate with its  *)
(* real control structure (C01 / C02, Group F tool (b) of DESIGN 1):         *)
(* column range min_n..max_n, the four initialisation cases, Ukkonen's       *)
(* `last`, the match / mismatch / deletion / insertion choice with the       *)
(* code's tie order, the last-row candidate rule with its three disjuncts    *)
(* and the early exit, the last-column loop (including the variable `origin` *)
(* that this loop reads although only the column loop assigns it), the       *)
(* N-count discount; plus PrefixComparer / SuffixComparer.                   *)
(*                                                                          *)
(* MC_AlignerAlg checks for all small inputs that the transcription          *)
(* satisfies the declarative property (Sound, MustFind, cut positions);      *)
(* Trace_Aligner compares it with recorded results of the real function      *)
(* (model conformance; by rule R1 a difference is never an alarm).           *)
(*                                                                          *)
(* A column is a triple of sequences <<cost, score, origin>> indexed i+1 for  *)
(* row i = 0..m.  flags = [sir, siq, eir, eiq] (start/stop in reference/query)*)
(***************************************************************************)
EXTENDS AdapterMatch

Flags(rule) ==
  CASE rule = "Back"     -> [sir |-> FALSE, siq |-> TRUE,  eir |-> TRUE,  eiq |-> TRUE]
    [] rule = "Front"    -> [sir |-> TRUE,  siq |-> TRUE,  eir |-> FALSE, eiq |-> TRUE]
    [] rule = "Prefix"   -> [sir |-> FALSE, siq |-> FALSE, eir |-> FALSE, eiq |-> TRUE]
    [] rule = "Suffix"   -> [sir |-> FALSE, siq |-> TRUE,  eir |-> FALSE, eiq |-> FALSE]
    [] rule = "FrontNI"  -> [sir |-> TRUE,  siq |-> FALSE, eir |-> FALSE, eiq |-> TRUE]
    [] rule = "BackNI"   -> [sir |-> FALSE, siq |-> TRUE,  eir |-> TRUE,  eiq |-> FALSE]
    [] rule = "Anywhere" -> [sir |-> TRUE,  siq |-> TRUE,  eir |-> TRUE,  eiq |-> TRUE]

NCountUpTo(a, i) == Cardinality({x \in 1..i : a[x] = 78})          \* n_counts[i]

\* cost <= effective length * max error rate, in exact arithmetic
Acceptable(cfg, a, length, refStart, refStop, cost) ==
  LET eff == IF cfg.aw THEN length - (NCountUpTo(a, refStop) - NCountUpTo(a, refStart)) ELSE length
  IN length >= cfg.minov /\ cost * cfg.den <= eff * cfg.num

\* ---- one column: rows 1..last are recomputed, the others keep their (stale) values ----
RECURSIVE Rows(_, _, _, _, _, _, _, _, _, _)
Rows(cfg, a, rch, ic, old, new, i, last, dg, org) ==
  \* old: column before this step; new: column being built (rows < i final); dg: old entry of row i-1;
  \* org: the C variable `origin` (value assigned in the latest iteration)
  IF i > last THEN <<new, org>>
  ELSE LET eq == CharMatch(a[i], rch, cfg.aw, cfg.rw)
           cur == <<old[1][i + 1], old[2][i + 1], old[3][i + 1]>>          \* old column[i]
           prev == <<new[1][i], new[2][i], new[3][i]>>                     \* new column[i-1]
           cd == dg[1] + 1
           ci == cur[1] + ic
           cx == prev[1] + ic
           e == IF eq THEN <<dg[1], dg[2] + 1, dg[3]>>
                ELSE IF cd <= cx /\ cd <= ci THEN <<cd, dg[2] - 1, dg[3]>>             \* mismatch
                ELSE IF cx <= ci THEN <<cx, prev[2] - 2, prev[3]>>                      \* deletion
                ELSE <<ci, cur[2] - 2, cur[3]>>                                         \* insertion
           nn == <<[new[1] EXCEPT ![i + 1] = e[1]], [new[2] EXCEPT ![i + 1] = e[2]], [new[3] EXCEPT ![i + 1] = e[3]]>>
       IN Rows(cfg, a, rch, ic, old, nn, i + 1, last, cur, e[3])

RECURSIVE ShrinkLast(_, _, _)
ShrinkLast(costs, last, k) == IF last >= 0 /\ costs[last + 1] > k THEN ShrinkLast(costs, last - 1, k) ELSE last

\* ---- the column loop ----
\* st = [col, last, best, org, filled]; best = [refstop, qstop, cost, origin, score]
RECURSIVE Columns(_, _, _, _, _, _, _, _, _)
Columns(cfg, fl, a, r, k, ic, j, maxn, st) ==
  IF j > maxn THEN st
  ELSE LET m == Len(a) n == Len(r)
           old == st.col
           c0 == <<[old[1] EXCEPT ![1] = @ + (IF fl.siq THEN 0 ELSE ic)],
                   [old[2] EXCEPT ![1] = @ + (IF fl.siq THEN 0 ELSE -2)],
                   [old[3] EXCEPT ![1] = @ + (IF fl.siq THEN 1 ELSE 0)]>>
           rr == Rows(cfg, a, r[j], ic, old, c0, 1, st.last, <<old[1][1], old[2][1], old[3][1]>>, st.org)
           col == rr[1]
           l1 == ShrinkLast(col[1], st.last, k)
       IN IF l1 < m
          THEN Columns(cfg, fl, a, r, k, ic, j + 1, maxn,
                       [col |-> col, last |-> l1 + 1, best |-> st.best, org |-> rr[2], filled |-> st.last])
          ELSE IF ~fl.eiq
          THEN Columns(cfg, fl, a, r, k, ic, j + 1, maxn,
                       [col |-> col, last |-> l1, best |-> st.best, org |-> rr[2], filled |-> st.last])
          ELSE \* a candidate in the last row
               LET cost == col[1][m + 1] score == col[2][m + 1] origin == col[3][m + 1]
                   length == m + Min2(origin, 0)
                   b == st.best
                   bestLen == m + Min2(b.origin, 0)
                   take == /\ Acceptable(cfg, a, length, m - length, m, cost)
                           /\ \/ b.cost = m + n + 1
                              \/ (origin <= b.origin + (m \div 2) /\ score > b.score)
                              \/ (length > bestLen /\ score > b.score)
                   nb == IF take THEN [refstop |-> m, qstop |-> j, cost |-> cost, origin |-> origin, score |-> score] ELSE b
                   nst == [col |-> col, last |-> l1, best |-> nb, org |-> origin, filled |-> st.last]
               IN IF take /\ cost = 0 /\ origin >= 0 THEN nst          \* exact match: stop early
                  ELSE Columns(cfg, fl, a, r, k, ic, j + 1, maxn, nst)

\* ---- the last-column loop (only when the last column computed is column n) ----
RECURSIVE LastColumn(_, _, _, _, _, _, _, _)
LastColumn(cfg, a, n, col, i, firstI, org, b) ==
  IF i < firstI THEN b
  ELSE LET m == Len(a)
           o == col[3][i + 1]
           length == i + Min2(o, 0)
           cost == col[1][i + 1]
           score == col[2][i + 1]
           refStart == IF Min2(o, 0) < 0 THEN -o ELSE 0
           bestLen == b.refstop + Min2(b.origin, 0)
           take == /\ Acceptable(cfg, a, length, IF length < m THEN refStart ELSE 0, i, cost)
                   /\ \/ b.cost = m + n + 1
                      \/ (org <= b.origin + (m \div 2) /\ score > b.score)      \* reads the loop-external `origin`
                      \/ (length > bestLen /\ score > b.score)
           nb == IF take THEN [refstop |-> i, qstop |-> n, cost |-> cost, origin |-> o, score |-> score] ELSE b
       IN LastColumn(cfg, a, n, col, i - 1, firstI, org, nb)

NoneRes == <<FALSE, <<0, 0, 0, 0, 0, 0>>>>

\* cfg here carries minov (= effective minimum overlap) in addition to the AdapterMatch fields
LocateWithFlags(cfg, fl, a, r) ==
  LET m == Len(a) n == Len(r)
      k == (cfg.num * m) \div cfg.den
      ic == IF cfg.indels THEN 1 ELSE 100000
      maxn == IF ~fl.siq THEN Min2(n, m + k) ELSE n
      minn == IF ~fl.eiq THEN Max2(0, n - m - k) ELSE 0
      col0 ==
        IF ~fl.sir /\ ~fl.siq
        THEN <<[i \in 1..(m + 1) |-> Max2(i - 1, minn) * ic], [i \in 1..(m + 1) |-> (i - 1) * (-2)], [i \in 1..(m + 1) |-> 0]>>
        ELSE IF fl.sir /\ ~fl.siq
        THEN <<[i \in 1..(m + 1) |-> minn * ic], [i \in 1..(m + 1) |-> 0], [i \in 1..(m + 1) |-> Min2(0, minn - (i - 1))]>>
        ELSE IF ~fl.sir /\ fl.siq
        THEN <<[i \in 1..(m + 1) |-> (i - 1) * ic], [i \in 1..(m + 1) |-> (i - 1) * (-2)], [i \in 1..(m + 1) |-> Max2(0, minn - (i - 1))]>>
        ELSE <<[i \in 1..(m + 1) |-> Min2(i - 1, minn) * ic], [i \in 1..(m + 1) |-> 0], [i \in 1..(m + 1) |-> minn - (i - 1)]>>
      last0 == IF fl.sir THEN m ELSE Min2(m, k + 1)
      best0 == [refstop |-> m, qstop |-> n, cost |-> m + n + 1, origin |-> 0, score |-> 0]
      st == Columns(cfg, fl, a, r, k, ic, minn + 1, maxn, [col |-> col0, last |-> last0, best |-> best0, org |-> 0, filled |-> 0])
      b == IF maxn = n
           THEN LastColumn(cfg, a, n, st.col, st.filled, IF fl.eir THEN 0 ELSE m, st.org, st.best)
           ELSE st.best
  IN IF b.cost = m + n + 1 THEN NoneRes
     ELSE LET as == IF b.origin >= 0 THEN 0 ELSE -b.origin
              rs == IF b.origin >= 0 THEN b.origin ELSE 0
          IN <<TRUE, <<as, b.refstop, rs, b.qstop, b.score, b.cost>>>>

\* prefix / suffix comparer (anchored adapters without indels)
ComparePrefix(cfg, a, r) ==
  LET m == Len(a) n == Len(r)
      len == Min2(m, n)
      errs == Cardinality({i \in 1..len : ~CharMatch(a[i], r[i], cfg.aw, cfg.rw)})
      eff == IF cfg.aw THEN m - NCountUpTo(a, m) ELSE m
      maxk == (cfg.num * eff) \div cfg.den
  IN IF errs > maxk \/ len < cfg.minov THEN NoneRes
     ELSE <<TRUE, <<0, len, 0, len, (len - errs) - errs, errs>>>>

AlgLocate(cfg0, a, r) ==
  LET cfg == [rule |-> cfg0.rule, num |-> cfg0.num, den |-> cfg0.den, aw |-> cfg0.aw, rw |-> cfg0.rw, indels |-> cfg0.indels,
              ovl |-> cfg0.ovl, minov |-> EffOvl(cfg0, Len(a))]
      rAny == IF cfg.rule = "Anywhere" THEN UpperSeq(r) ELSE r
  IN CASE cfg.rule = "Prefix" /\ ~cfg.indels -> ComparePrefix(cfg, a, r)
       [] cfg.rule = "Suffix" /\ ~cfg.indels ->
            LET x == ComparePrefix(cfg, Reverse(a), Reverse(r)) IN
            IF ~x[1] THEN NoneRes
            ELSE <<TRUE, <<Len(a) - x[2][2], Len(a), Len(r) - x[2][2], Len(r), x[2][5], x[2][6]>>>>
       [] cfg.rule = "RightmostFront" ->
            LET x == LocateWithFlags(cfg, Flags("Back"), Reverse(a), Reverse(r)) IN
            IF ~x[1] THEN NoneRes
            ELSE <<TRUE, <<Len(a) - x[2][2], Len(a) - x[2][1], Len(r) - x[2][4], Len(r) - x[2][3], x[2][5], x[2][6]>>>>
       [] OTHER -> LocateWithFlags(cfg, Flags(cfg.rule), a, rAny)
=============================================================================
