---------------------------- MODULE Trace_Grammar ----------------------------
(* Trace specification for C18: for every derivation TLC enumerated (MC_Grammar), the harness
   rendered it in the documented notation and gave it to the real parser
   (make_adapters_from_specifications with the global options as search parameters; a sample also
   through the command line).  e.d is the derivation, e.obs what was observed:
   [ok, crash, exit (-100: not run through the command line), hasmsg, ads] with per adapter
   [cls, seq, rnum, rden, ovl, indels, aw, rw, name, fa, linked, freq, breq, front, back]. *)
EXTENDS TraceIO, AdapterSpecGrammar
VARIABLE l
SeqTexts == << <<65,67,71,84,65,67,71,84,84,71,67,65>>, <<65,65,78,78,84,84,71,71,67,67>>,
               <<65,67,71,123,51,125,84,84,65,67>>, <<97,99,103,116,110,123,50,125,97,99,103,116>>,
               <<65,67,71,85,73,73,65,67,71,84>>,
               <<65,67,71,84,123,57,125,65,67>> >>
Nm == <<110, 109>>                \* "nm"
RecName(i) == <<114, 48 + i>>     \* "r1", "r2"
AllDigits(s) == Len(s) >= 1 /\ \A i \in 1..Len(s) : s[i] >= 48 /\ s[i] <= 57

SameRate(o, r) == o.rnum * r[2] = r[1] * o.rden
OneOK(e, tag, i, o, m, expName) ==
  /\ RepK3(e.id, tag \o "ClassAsDocumented", i, o.cls = m.cls /\ o.fa = m.fa)
  /\ RepK3(e.id, tag \o "SequenceAfterExpansion", i, o.seq = m.seq)
  /\ RepK3(e.id, tag \o "ParametersByPrecedence", i, o.ovl = m.ovl /\ o.indels = m.indels /\ o.aw = m.aw /\ o.rw = m.rw)
  /\ RepK3(e.id, tag \o "AbsoluteErrorsToRate", i, SameRate(o, m.rate))
  /\ expName # <<>> => RepK3(e.id, tag \o "NameAssigned", i, o.name = expName)

Check(e) ==
  LET d == e.d
      M == Meaning(d, SeqTexts)
      ob == e.obs
  IN IF Unspecified(d)
     THEN Rep(e.id, "AcceptedOrRejectedWithStatus2", ~ob.crash /\ (ob.exit \in {-100, 0, 2}))
     ELSE
     /\ ~M.valid => Rep(e.id, "InvalidRejectedWithStatus2",
                        ~ob.ok /\ ~ob.crash /\ (ob.exit = -100 \/ (ob.exit = 2 /\ ob.hasmsg)))
     /\ M.valid => /\ Rep(e.id, "ValidSpecificationAccepted", ob.ok /\ (ob.exit = -100 \/ ob.exit = 0))
                   /\ ob.ok =>
                      /\ Rep(e.id, "NumberOfAdapters", Len(ob.ads) = Len(M.ads))
                      /\ Len(ob.ads) = Len(M.ads) =>
                         \A i \in 1..Len(M.ads) :
                           LET o == ob.ads[i]  m == M.ads[i] IN
                           /\ RepK3(e.id, "LinkedAsDocumented", i, o.linked = m.linked)
                           /\ o.linked = m.linked =>
                              IF m.linked
                              THEN /\ RepK3(e.id, "LinkedRequiredDefaults", i, o.freq = m.freq /\ o.breq = m.breq)
                                   /\ OneOK(e, "Front.", i, o.front, m.front, <<>>)
                                   /\ OneOK(e, "Back.", i, o.back, m.back, <<>>)
                                   /\ RepK3(e.id, "NameAssigned", i, IF m.a.named THEN o.name = Nm ELSE AllDigits(o.name))
                              ELSE /\ OneOK(e, "", i, o, m.a, IF d.kind = "file" /\ i <= 2 THEN RecName(i) ELSE IF m.a.named THEN Nm ELSE <<>>)
                                   /\ ((d.kind # "file" \/ i = 3) /\ ~m.a.named) => RepK3(e.id, "NameAssigned", i, AllDigits(o.name))

Init == l = 1
Next == l <= Len(Trace) /\ (Check(Trace[l]) = TRUE) /\ l' = l + 1
Spec == Init /\ [][Next]_l
=============================================================================
