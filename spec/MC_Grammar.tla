------------------------------ MODULE MC_Grammar ------------------------------
(* TLC enumerates the derivations of the documented notation within the bounds below (four
   families: placement, search parameters x global options, linked adapters, file variants),
   writes them to OUT_FILE (one JSON object per line) for the harness to render and feed to the
   real parser, and checks that Meaning is total and satisfies the documented side facts. *)
EXTENDS AdapterSpecGrammar, TLC, Json, IOUtils, SequencesExt
CONSTANTS Scale        \* 1: quick bounds, 2: thorough bounds
VARIABLE d

\* sequences as written (ASCII): 1 ACGTACGTTGCA  2 AANNTTGGCC  3 ACG{3}TTAC  4 acgtn{2}acgt  5 ACGUIIACGT
\* 6 ACGT{9}AC (longer when expanded than as written)
SeqTexts == << <<65,67,71,84,65,67,71,84,84,71,67,65>>, <<65,65,78,78,84,84,71,71,67,67>>,
               <<65,67,71,123,51,125,84,84,65,67>>, <<97,99,103,116,110,123,50,125,97,99,103,116>>,
               <<65,67,71,85,73,73,65,67,71,84>>,
               <<65,67,71,84,123,57,125,65,67>> >>           \* 5 ACGUIIACGT

P0 == [seq |-> 1, restr |-> "none", rightmost |-> FALSE, anywhere |-> FALSE, named |-> FALSE, ekey |-> "none",
       eval |-> <<1, 5>>, okey |-> "none", oval |-> 4, ind |-> "none", req |-> "none"]
G0 == [e |-> <<1, 10>>, o |-> 3, noindels |-> FALSE, nowild |-> FALSE, rw |-> FALSE]
Globs == {G0, [G0 EXCEPT !.e = <<3, 10>>, !.o = 5], [G0 EXCEPT !.e = <<2, 1>>], [G0 EXCEPT !.noindels = TRUE, !.rw = TRUE],
          [G0 EXCEPT !.nowild = TRUE]} \cup (IF Scale > 1 THEN {[G0 EXCEPT !.o = 20], [G0 EXCEPT !.e = <<0, 1>>, !.noindels = TRUE]} ELSE {})
EKeys == {"e", "max_error_rate", "error_rate", "max_errors"}
EVals == {<<1, 5>>, <<2, 1>>} \cup (IF Scale > 1 THEN {<<1, 1>>, <<0, 1>>} ELSE {})
D0 == [kind |-> "single", opt |-> "a", p1 |-> P0, p2 |-> P0, fkind |-> "file:", fpar |-> P0, glob |-> G0]

Placement ==
  {[D0 EXCEPT !.opt = o, !.p1 = [P0 EXCEPT !.seq = s, !.restr = r, !.rightmost = rm, !.anywhere = aw, !.named = nm]] :
     o \in {"a", "g", "b"}, s \in 1..6, r \in {"none", "anchor", "ni"}, rm \in BOOLEAN, aw \in BOOLEAN, nm \in BOOLEAN}
Params ==
  {[D0 EXCEPT !.opt = o, !.glob = g,
              !.p1 = [P0 EXCEPT !.seq = s, !.restr = r, !.ekey = ek, !.eval = ev, !.okey = ok, !.oval = ov, !.ind = i, !.req = rq]] :
     o \in {"a", "g"}, g \in Globs, s \in {1, 2, 4, 5, 6}, r \in {"none", "anchor"}, ek \in EKeys \cup {"none"}, ev \in EVals,
     ok \in {"none", "o", "min_overlap"}, ov \in {4, 12, 30}, i \in {"none", "indels", "noindels"},
     rq \in (IF Scale > 1 THEN {"none", "required"} ELSE {"none"})}
Linked ==
  {[D0 EXCEPT !.kind = "linked", !.opt = o, !.glob = g,
              !.p1 = [P0 EXCEPT !.seq = 3, !.restr = r1, !.req = q1, !.named = nm, !.ekey = ek, !.rightmost = rm],
              !.p2 = [P0 EXCEPT !.seq = 2, !.restr = r2, !.req = q2, !.okey = ok, !.ind = i]] :
     o \in {"a", "g", "b"}, g \in {G0, [G0 EXCEPT !.e = <<3, 10>>, !.o = 5]}, r1 \in {"none", "anchor", "ni"},
     r2 \in {"none", "anchor", "ni"}, q1 \in {"none", "required", "optional"}, q2 \in {"none", "required", "optional"},
     nm \in BOOLEAN, ek \in {"none", "e"}, ok \in {"none", "o"}, i \in {"none", "noindels"}, rm \in {FALSE}}
Files ==
  {[D0 EXCEPT !.kind = "file", !.opt = o, !.fkind = fk, !.glob = g,
              !.fpar = [P0 EXCEPT !.ekey = fe, !.eval = <<3, 10>>, !.okey = fo, !.oval = 5, !.ind = fi],
              !.p1 = [P0 EXCEPT !.seq = 1, !.restr = r1, !.ekey = e1, !.eval = <<1, 5>>],
              !.p2 = [P0 EXCEPT !.seq = 2, !.restr = r2, !.okey = o2, !.oval = 4, !.ind = i2]] :
     o \in {"a", "g", "b"}, fk \in {"file:", "^file:", "file$:"}, g \in {G0, [G0 EXCEPT !.e = <<2, 1>>, !.noindels = TRUE]},
     fe \in {"none", "e", "max_errors"}, fo \in {"none", "o"}, fi \in {"none", "noindels", "indels"},
     r1 \in {"none", "anchor", "ni"}, r2 \in {"none", "ni"}, e1 \in {"none", "max_error_rate"}, o2 \in {"none", "min_overlap"}, i2 \in {"none", "indels"}}

\* only documented combinations are generated: `anywhere` with regular -a / -g; the anchor of a record in a
\* file is written in the record only with plain "file:"
Documented(x) ==
  /\ (x.p1.anywhere => x.kind = "single")
  /\ (x.kind = "file" /\ x.fkind # "file:" => x.p1.restr = "none" /\ x.p2.restr = "none")
Derivations == {x \in Placement \cup Params \cup Linked \cup Files : Documented(x)}

ASSUME ndJsonSerialize(IOEnv.OUT_FILE, SetToSeq(Derivations))

Init == d \in Derivations
Next == UNCHANGED d
Spec == Init /\ [][Next]_d

M == Meaning(d, SeqTexts)
Classes == {"BackAdapter", "SuffixAdapter", "NonInternalBackAdapter", "FrontAdapter", "RightmostFrontAdapter",
            "PrefixAdapter", "NonInternalFrontAdapter", "AnywhereAdapter"}
OneOK(a) == /\ a.cls \in Classes /\ Len(a.seq) >= 1 /\ a.rate[2] > 0 /\ a.ovl >= 1 /\ a.ovl <= Len(a.seq)
            /\ (a.cls \in {"PrefixAdapter", "SuffixAdapter"} => a.ovl = Len(a.seq))       \* anchored: full length
MeaningWellFormed ==
  (M.valid /\ ~Unspecified(d)) => \A i \in 1..Len(M.ads) :
               IF M.ads[i].linked THEN OneOK(M.ads[i].front) /\ OneOK(M.ads[i].back)
                                       /\ M.ads[i].front.cls \in {"FrontAdapter", "PrefixAdapter", "NonInternalFrontAdapter", "RightmostFrontAdapter"}
                                       /\ M.ads[i].back.cls \in {"BackAdapter", "SuffixAdapter", "NonInternalBackAdapter"}
               ELSE OneOK(M.ads[i].a)
\* -g A...B requires both parts unless overridden; -a only the anchored ones
LinkedDefaults ==
  (d.kind = "linked" /\ M.valid /\ d.p1.req = "none" /\ d.p2.req = "none") =>
     IF d.opt = "g" THEN M.ads[1].freq /\ M.ads[1].breq
     ELSE M.ads[1].freq = (d.p1.restr # "none") /\ M.ads[1].breq = (d.p2.restr # "none")
BraceExpansion == /\ ExpandBraces(SeqTexts[3]) = <<65,67,71,71,71,84,84,65,67>>
                  /\ ExpandBraces(SeqTexts[4]) = <<97,99,103,116,110,110,97,99,103,116>>
                  /\ ExpandBraces(SeqTexts[1]) = SeqTexts[1]
=============================================================================
