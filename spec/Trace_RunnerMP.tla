--------------------------- MODULE Trace_RunnerMP ---------------------------
(* Trace specification for real multi-process runs (C06 / C12): every process writes its own log of
   hook events (per-process sequence numbers, no wall clock).  TLC searches for an interleaving of
   the per-process logs that is a behaviour of Runner: one position per log, a step consumes the next
   event of some process if the corresponding Runner action is enabled with the logged arguments.
   Logs of terminated children may be proper prefixes of what they would have done.
   The run is explained iff the state AllConsumed is reachable: the config checks the invariant
   NotAllConsumed and a reported "violation" of it is the acceptance. *)
EXTENDS Runner, Json, IOUtils
VARIABLES pos
Run == JsonDeserialize(IOEnv.TRACE_FILE)     \* [nw, nc, kinds, roles : Seq(STRING), logs : Seq(Seq(event))]
NRoles == Len(Run.logs)
tvars == <<vars, pos>>
SetOf(s) == {s[k] : k \in 1..Len(s)}

Match(e) ==
  CASE e.ev = "r_fmt"      -> RFormat
    [] e.ev = "r_fmt_fail" -> RFormatFail
    [] e.ev = "r_fail"     -> RFail
    [] e.ev = "r_send"     -> RSend /\ last' = <<"RSend", e.chunk, e.worker>>
    [] e.ev = "r_pill"     -> RPill /\ last' = <<"RPill", e.worker>>
    [] e.ev = "r_done"     -> RDone
    [] e.ev = "w_ask"      -> e.worker \in Workers /\ WAsk(e.worker)
    [] e.ev = "w_res"      -> e.worker \in Workers /\ WRecv(e.worker) /\ last' = <<"WRes", e.worker, e.chunk>>
    [] e.ev = "w_stats"    -> e.worker \in Workers /\ WRecv(e.worker) /\ last' = <<"WStats", e.worker>>
    [] e.ev = "w_exc"      -> e.worker \in Workers /\ WRecv(e.worker) /\ last' = <<"WExc", e.worker>>
    [] e.ev = "m_fmt"      -> MFormat /\ last' = <<"MFormat">>
    [] e.ev = "m_exc"      -> (MFormat \/ MProc) /\ last' = <<"MExc">>
    [] e.ev = "m_start"    -> MStart
    [] e.ev = "m_wait"     -> MWait /\ ready' = e.ready
    [] e.ev = "m_res"      -> /\ MProc /\ last' = <<"MRes", e.worker, e.chunk>>
                              /\ (e.cur0 >= 0 => (cur' = e.cur0 /\ pend' = SetOf(e.pend0)))
    [] e.ev = "m_stats"    -> MProc /\ last' = <<"MStats", e.worker>>
    [] e.ev = "m_done"     -> MFinish
    [] OTHER               -> FALSE

TInit == InitWith(Run.nw, Run.nc, SetOf(Run.kinds)) /\ pos = [r \in 1..NRoles |-> 1]
TNext == \E r \in 1..NRoles :
           /\ pos[r] <= Len(Run.logs[r])
           /\ Match(Run.logs[r][pos[r]])
           /\ pos' = [pos EXCEPT ![r] = @ + 1]
TSpec == TInit /\ [][TNext]_tvars
AllConsumed == \A r \in 1..NRoles : pos[r] > Len(Run.logs[r])
NotAllConsumed == ~AllConsumed
\* progress measure printed when the search ends without consuming everything
Consumed == LET RECURSIVE S(_) S(r) == IF r = 0 THEN 0 ELSE (pos[r] - 1) + S(r - 1) IN S(NRoles)
=============================================================================
