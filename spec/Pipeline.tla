------------------------------ MODULE Pipeline ------------------------------
(***************************************************************************)
(* The per-read reference model of a cutadapt run (C03, C04, C05, C09, C10,  *)
(* C11, C15, C16, C17, C20): the documented fixed order of modifications,    *)
(* then the info-file row(s), then the filters in their documented order,    *)
(* then the sink / demultiplexer.                                            *)
(*                                                                          *)
(* cfg (all fields always present, see harness/gen_run.py):                  *)
(*   paired, cut1, cut2 : Seq(Int) (in the order given)                      *)
(*   nextseq : Int (-1 = off), q1, q2 : [on, c5, c3], qbase                  *)
(*   ads1, ads2 : Seq(adapter descriptor), action, times, revcomp, pairads   *)
(*   rcsuffix : BOOLEAN (" rc" is appended unless --rename is used)          *)
(*   polya, len1, len2 : [on, n], trimn, zerocap                             *)
(*   lengthtag : Seq (<<>> = off), strip : Seq(Seq), prefix, suffix : token   *)
(*   lists, rename : token list (<<>> = off)                                 *)
(*   minlen1, minlen2, maxlen1, maxlen2 : Int (-1 = none) and the flags       *)
(*   hasmin / hasmax; maxn : [on, a, b]; maxee, maxaer : [on, hi, lo] in     *)
(*   10^-12 limbs; casava; dtrim, duntrim, untrimout : BOOLEAN; pairfilter;   *)
(*   demux : "none" | "normal" | "combi"; names1, names2 : Seq(name)          *)
(* A read is [name, seq, qual] (qual = <<>> for FASTA input).                 *)
(***************************************************************************)
EXTENDS AdapterCutting, QualTrim, ReadOps

(*************************** simple stages *********************************)
CutOne(r, n) ==
  IF n > 0 THEN SliceRead(r, Min2(n, Len(r.seq)), Len(r.seq))
  ELSE SliceRead(r, 0, Max2(Len(r.seq) + n, 0))
RECURSIVE CutAll(_, _, _)
CutAll(r, cuts, k) == IF k > Len(cuts) THEN r ELSE CutAll(CutOne(r, cuts[k]), cuts, k + 1)
\* what -u removed (for {cut_prefix} / {cut_suffix}); at most one positive and one negative value
CutPrefixOf(seq, cuts) ==
  LET pos == {k \in 1..Len(cuts) : cuts[k] > 0} IN
  IF pos = {} THEN <<>>
  ELSE LET k == CHOOSE x \in pos : TRUE
           \* a negative cut given before shortens the read the positive one sees
           before == IF k = 2 /\ cuts[1] < 0 THEN Slice(seq, 0, Max2(Len(seq) + cuts[1], 0)) ELSE seq
       IN Slice(before, 0, Min2(cuts[k], Len(before)))
CutSuffixOf(seq, cuts) ==
  LET neg == {k \in 1..Len(cuts) : cuts[k] < 0} IN
  IF neg = {} THEN <<>>
  ELSE LET k == CHOOSE x \in neg : TRUE
           before == IF k = 2 /\ cuts[1] > 0 THEN Slice(seq, Min2(cuts[1], Len(seq)), Len(seq)) ELSE seq
       IN Slice(before, Max2(Len(before) + cuts[k], 0), Len(before))

Ph(q, base) == [i \in 1..Len(q) |-> q[i] - base]
NextSeqStage(r, c, base) == SliceRead(r, 0, NextSeqStop(Ph(r.qual, base), r.seq, c))
QualStage(r, q, base) ==
  IF ~q.on THEN r ELSE LET iv == TrimInterval(Ph(r.qual, base), q.c5, q.c3) IN SliceRead(r, iv[1], iv[2])
PolyAStage(r, second) ==
  IF second THEN SliceRead(r, PolyTIndex(r.seq), Len(r.seq)) ELSE SliceRead(r, 0, PolyAIndex(r.seq))
ShortenStage(r, n) ==
  IF n >= 0 THEN SliceRead(r, 0, Min2(n, Len(r.seq))) ELSE SliceRead(r, Max2(Len(r.seq) + n, 0), Len(r.seq))
TrimNStage(r) == LET iv == TrimNInterval(r.seq) IN SliceRead(r, iv[1], iv[2])
ZeroCapStage(r, base) == [r EXCEPT !.qual = [i \in 1..Len(r.qual) |-> IF r.qual[i] < base THEN base ELSE r.qual[i]]]

(*************************** names ******************************************)
IsDigit(c) == c >= 48 /\ c <= 57
IsWordChar(c) == IsDigit(c) \/ (c >= 65 /\ c <= 90) \/ (c >= 97 /\ c <= 122) \/ c = 95
StartsAt(s, t, p) == p + Len(t) - 1 <= Len(s) /\ \A i \in 1..Len(t) : s[p + i - 1] = t[i]
EndsWith(s, t) == Len(t) <= Len(s) /\ StartsAt(s, t, Len(s) - Len(t) + 1)
RECURSIVE DigitsEnd(_, _)
DigitsEnd(s, p) == IF p <= Len(s) /\ IsDigit(s[p]) THEN DigitsEnd(s, p + 1) ELSE p   \* first non-digit position
RECURSIVE NatToSeq(_)
NatToSeq(n) == IF n < 10 THEN <<48 + n>> ELSE NatToSeq(n \div 10) \o <<48 + (n % 10)>>
\* --length-tag: the number behind the (first) tag is replaced by the current length.  Inputs are
\* generated so that the tag occurs at most once, at a word boundary, followed by digits and a word end.
LengthTagName(name, tag, len) ==
  LET P == {p \in 1..Len(name) : StartsAt(name, tag, p) /\ (p = 1 \/ ~IsWordChar(name[p - 1]))} IN   \* \b before the tag
  IF P = {} THEN name
  ELSE LET p == CHOOSE x \in P : \A y \in P : x <= y
           e == DigitsEnd(name, p + Len(tag))
       IN SubSeq(name, 1, p + Len(tag) - 1) \o NatToSeq(len) \o SubSeq(name, e, Len(name))
StripSuffixName(name, sfx) == IF Len(sfx) > 0 /\ EndsWith(name, sfx) THEN SubSeq(name, 1, Len(name) - Len(sfx)) ELSE name
RECURSIVE StripAll(_, _, _)
StripAll(name, sfxs, k) == IF k > Len(sfxs) THEN name ELSE StripAll(StripSuffixName(name, sfxs[k]), sfxs, k + 1)

NoAdapterName == <<110, 111, 95, 97, 100, 97, 112, 116, 101, 114>>          \* "no_adapter"
LastName(ms) == IF ms = <<>> THEN NoAdapterName ELSE ms[Len(ms)].name
\* id = header up to the first whitespace, comment = the rest without leading whitespace
IsBlank(c) == c = 32 \/ c = 9
RECURSIVE IdEndP(_, _)
IdEndP(h, i) == IF i > Len(h) \/ IsBlank(h[i]) THEN i - 1 ELSE IdEndP(h, i + 1)
RECURSIVE SkipBlanks(_, _)
SkipBlanks(h, i) == IF i <= Len(h) /\ IsBlank(h[i]) THEN SkipBlanks(h, i + 1) ELSE i
IdOf(h) == SubSeq(h, 1, IdEndP(h, 1))
CommentOf(h) == LET e == IdEndP(h, 1) IN IF e >= Len(h) THEN <<>> ELSE SubSeq(h, SkipBlanks(h, e + 1), Len(h))

\* the sequence that matched the adapter of the last match (both parts of a linked adapter, comma separated)
MatchSeqOf(m, searched) ==
  IF ~m.linked THEN (IF m.hasF THEN Slice(searched, m.f.rs, m.f.re) ELSE Slice(searched, m.b.rs, m.b.re))
  ELSE (IF m.hasF THEN Slice(searched, m.f.rs, m.f.re) ELSE <<>>) \o <<44>> \o
       (IF m.hasB THEN LET off == IF m.hasF THEN m.f.re ELSE 0 IN Slice(searched, off + m.b.rs, off + m.b.re) ELSE <<>>)

\* template tokens: [k |-> "lit", v |-> Seq] or [k |-> placeholder name, v |-> <<>>]
\* env: [header, cutprefix, cutsuffix, adname, rc, matchseq, rn] (+ r1/r2 variants resolved by the caller)
TokenValue(t, env) ==
  CASE t.k = "lit" -> t.v
    [] t.k = "header" -> env.header
    [] t.k = "id" -> IdOf(env.header)
    [] t.k = "comment" -> CommentOf(env.header)
    [] t.k = "cut_prefix" -> env.cutprefix
    [] t.k = "cut_suffix" -> env.cutsuffix
    [] t.k = "adapter_name" -> env.adname
    [] t.k = "name" -> env.adname
    [] t.k = "rc" -> IF env.rc THEN <<114, 99>> ELSE <<>>
    [] t.k = "match_sequence" -> env.matchseq
    [] t.k = "rn" -> <<48 + env.rn>>
RECURSIVE Expand(_, _, _)
Expand(tokens, env, k) == IF k > Len(tokens) THEN <<>> ELSE TokenValue(tokens[k], env) \o Expand(tokens, env, k + 1)

(*************************** one mate through the modifiers ****************)
\* Everything before the adapter stage
PreAdapter(cfg, r, second) ==
  LET cuts == IF second THEN cfg.cut2 ELSE cfg.cut1
      r1 == CutAll(r, cuts, 1)
      r2 == IF cfg.nextseq >= 0 THEN NextSeqStage(r1, cfg.nextseq, cfg.qbase) ELSE r1
      r3 == QualStage(r2, IF second THEN cfg.q2 ELSE cfg.q1, cfg.qbase)
  IN r3

\* <<bases removed at the 5' end, bases removed at the 3' end>> before the adapter stage
RECURSIVE CutOffsets(_, _, _, _, _)
CutOffsets(len, cuts, k, lo, hi) ==       \* [lo, hi) of the original still present
  IF k > Len(cuts) THEN <<lo, hi>>
  ELSE IF cuts[k] > 0 THEN CutOffsets(len, cuts, k + 1, Min2(lo + cuts[k], hi), hi)
  ELSE CutOffsets(len, cuts, k + 1, lo, Max2(hi + cuts[k], lo))
PreOffsets(cfg, r, second) ==
  LET cuts == IF second THEN cfg.cut2 ELSE cfg.cut1
      c == CutOffsets(Len(r.seq), cuts, 1, 0, Len(r.seq))
      r1 == CutAll(r, cuts, 1)
      r2 == IF cfg.nextseq >= 0 THEN NextSeqStage(r1, cfg.nextseq, cfg.qbase) ELSE r1
      q == IF second THEN cfg.q2 ELSE cfg.q1
      iv == IF q.on THEN TrimInterval(Ph(r2.qual, cfg.qbase), q.c5, q.c3) ELSE <<0, Len(r2.seq)>>
      lo == c[1] + iv[1]
      hi == c[1] + iv[2]
  IN <<lo, Len(r.seq) - hi>>

\* Everything after the adapter stage except naming; `r` is the read after the adapter stage
PostAdapterSeq(cfg, r, second) ==
  LET a == IF cfg.polya THEN PolyAStage(r, second) ELSE r
      ln == IF second THEN cfg.len2 ELSE cfg.len1
      b == IF ln.on THEN ShortenStage(a, ln.n) ELSE a
      c == IF cfg.trimn THEN TrimNStage(b) ELSE b
  IN c

\* Naming steps: length tag, strip suffix, prefix/suffix, then rename; zero cap on qualities
NameEnv(header, cfg, input, second, ms, isrc, searched, rn) ==
  [header |-> header,
   cutprefix |-> CutPrefixOf(input.seq, IF second THEN cfg.cut2 ELSE cfg.cut1),
   cutsuffix |-> CutSuffixOf(input.seq, IF second THEN cfg.cut2 ELSE cfg.cut1),
   adname |-> LastName(ms), rc |-> isrc,
   matchseq |-> IF ms = <<>> THEN <<>> ELSE MatchSeqOf(ms[Len(ms)], searched), rn |-> rn]
\* (`searched` must be the sequence the *last* round searched)

PostNames1(cfg, r, env0) ==     \* up to prefix/suffix (these see the read name, not the template)
  LET n1 == IF cfg.lengthtag # <<>> THEN LengthTagName(r.name, cfg.lengthtag, Len(r.seq)) ELSE r.name
      n2 == StripAll(n1, cfg.strip, 1)
      env == [env0 EXCEPT !.header = n2]
      n3 == IF cfg.prefix # <<>> \/ cfg.suffix # <<>>
            THEN Expand(cfg.prefix, env, 1) \o n2 \o Expand(cfg.suffix, env, 1) ELSE n2
      q == IF cfg.zerocap /\ r.qual # <<>> THEN ZeroCapStage(r, cfg.qbase).qual ELSE r.qual
  IN [name |-> n3, seq |-> r.seq, qual |-> q]

(*************************** filters ****************************************)
\* expected errors in 10^-12 limbs: <<hi, lo>>
EEOf(r, base) == EESum(Ph(r.qual, base), 1, 0, 0)
Norm(x) == <<x[1] + (x[2] \div 1000000), x[2] % 1000000>>
LimbGreater(x, yhi, ylo) ==      \* x = <<hi, lo>> (not normalised) > <<yhi, ylo>> (normalised)
  LET n == Norm(x) IN n[1] > yhi \/ (n[1] = yhi /\ n[2] > ylo)
\* e / len > t   <=>   e > t * len   (t < 1 given as limbs)
AerGreater(x, thi, tlo, len) ==
  LET t == Norm(<<thi * len, tlo * len>>) IN LimbGreater(x, t[1], t[2])

TooShort(r, n) == Len(r.seq) < n
TooLong(r, n) == Len(r.seq) > n
TooManyN(r, mn) ==
  IF mn.a < mn.b THEN Len(r.seq) > 0 /\ NCount(r.seq) * mn.b > mn.a * Len(r.seq)
  ELSE NCount(r.seq) * mn.b > mn.a
TooManyEE(r, t, base) == LimbGreater(EEOf(r, base), t.hi, t.lo)
TooHighAER(r, t, base) == Len(r.seq) > 0 /\ AerGreater(EEOf(r, base), t.hi, t.lo, Len(r.seq))
CasavaFiltered(name) ==
  LET P == {p \in 1..Len(name) : name[p] = 32} IN
  IF P = {} THEN FALSE
  ELSE LET p == CHOOSE x \in P : \A y \in P : x <= y      \* partition at the first space
       IN p + 4 <= Len(name) /\ name[p + 2] = 58 /\ name[p + 3] = 89 /\ name[p + 4] = 58   \* right[1:4] = ":Y:"

\* pair decision: "any", "both", "first"; a missing predicate on one side looks at the other side only
PairDecision(mode, has1, p1, has2, p2) ==
  IF ~has2 THEN p1 ELSE IF ~has1 THEN p2
  ELSE CASE mode = "any" -> p1 \/ p2 [] mode = "both" -> p1 /\ p2 [] mode = "first" -> p1

\* The fate of a fully modified read (pair): name of the first step that consumes it.
\* o1, o2: final reads; t1, t2: "an adapter match was found" per mate
Fate(cfg, o1, o2, t1, t2) ==
  LET pr == cfg.paired
      mode == cfg.pairfilter
      sym(p1, p2) == IF pr THEN PairDecision(mode, TRUE, p1, TRUE, p2) ELSE p1
      short == cfg.hasmin /\ (IF pr THEN PairDecision(mode, cfg.minlen1 >= 0, cfg.minlen1 >= 0 /\ TooShort(o1, cfg.minlen1),
                                                cfg.minlen2 >= 0, cfg.minlen2 >= 0 /\ TooShort(o2, cfg.minlen2))
                              ELSE TooShort(o1, cfg.minlen1))
      long == cfg.hasmax /\ (IF pr THEN PairDecision(mode, cfg.maxlen1 >= 0, cfg.maxlen1 >= 0 /\ TooLong(o1, cfg.maxlen1),
                                               cfg.maxlen2 >= 0, cfg.maxlen2 >= 0 /\ TooLong(o2, cfg.maxlen2))
                             ELSE TooLong(o1, cfg.maxlen1))
      manyn == cfg.maxn.on /\ sym(TooManyN(o1, cfg.maxn), pr /\ TooManyN(o2, cfg.maxn))
      ee == cfg.maxee.on /\ sym(TooManyEE(o1, cfg.maxee, cfg.qbase), pr /\ TooManyEE(o2, cfg.maxee, cfg.qbase))
      aer == cfg.maxaer.on /\ sym(TooHighAER(o1, cfg.maxaer, cfg.qbase), pr /\ TooHighAER(o2, cfg.maxaer, cfg.qbase))
      casava == cfg.casava /\ sym(CasavaFiltered(o1.name), pr /\ CasavaFiltered(o2.name))
      \* with adapters on one side only, the untrimmed filters use "both" instead of the given mode
      umode == IF pr /\ (cfg.ads1 = <<>> \/ cfg.ads2 = <<>>) THEN "both" ELSE mode
      trimmed == IF pr THEN PairDecision(mode, TRUE, t1, TRUE, t2) ELSE t1
      untrimmed == IF pr THEN PairDecision(umode, TRUE, ~t1, TRUE, ~t2) ELSE ~t1
  IN CASE short -> "too_short"
       [] ~short /\ long -> "too_long"
       [] ~short /\ ~long /\ manyn -> "too_many_n"
       [] ~short /\ ~long /\ ~manyn /\ ee -> "too_many_expected_errors"
       [] ~short /\ ~long /\ ~manyn /\ ~ee /\ aer -> "too_high_average_error_rate"
       [] ~short /\ ~long /\ ~manyn /\ ~ee /\ ~aer /\ casava -> "casava_filtered"
       [] OTHER ->
          IF cfg.demux = "normal"
          THEN (IF t1 THEN "demux" ELSE IF cfg.duntrim THEN "discard_untrimmed" ELSE "demux_untrimmed")
          ELSE IF cfg.demux = "combi"
          THEN (IF cfg.duntrim /\ (~t1 \/ ~t2) THEN "discard_untrimmed" ELSE "demux")
          ELSE IF cfg.dtrim /\ trimmed THEN "discard_trimmed"
          ELSE IF cfg.duntrim /\ untrimmed THEN "discard_untrimmed"
          ELSE IF cfg.untrimout /\ untrimmed THEN "untrimmed_output"
          ELSE "written"

\* Where a read with a given fate ends up: the role name of an output file or "none"
Destination(cfg, fate, ms1, ms2) ==
  CASE fate = "too_short" -> IF cfg.tooshortout THEN "too_short" ELSE "none"
    [] fate = "too_long" -> IF cfg.toolongout THEN "too_long" ELSE "none"
    [] fate = "untrimmed_output" -> "untrimmed"
    [] fate = "written" -> "out"
    [] fate = "demux" -> "demux"
    [] fate = "demux_untrimmed" -> IF cfg.untrimout THEN "untrimmed" ELSE "demux_unknown"
    [] OTHER -> "none"
\* counted as written (and in the length statistics) or in exactly one filter category
CountsAsWritten(cfg, fate) == fate \in {"written", "demux", "demux_untrimmed"}
=============================================================================
