\* thorough, second config: {A, C, T} up to length 11 reaches the "2 others in 10" boundary
CONSTANTS
  Alpha = {65, 67, 84}
  MaxLen = 11
SPECIFICATION Spec
INVARIANT PolyAScanIsDecl
INVARIANT PolyTScanIsDecl
INVARIANT PolyATailAtLeast3
INVARIANT PolyAWithin20pct
CHECK_DEADLOCK FALSE
