-------------------------- MODULE MC_AdapterCutting --------------------------
(***************************************************************************)
(* Design-level check of the adapter stage (AdapterCutting): the recursive   *)
(* definitions that every run is validated against (BestOf, Rounds, actions, *)
(* linked adapters, reverse complement) satisfy the *declarative* sentences  *)
(* of C03, C09 and C16, for every small read and adapter list.               *)
(*                                                                          *)
(* The oracle hole Locate is filled here with a concrete, deliberately       *)
(* simple matcher (full-length occurrences with at most one mismatch, score  *)
(* = matches - mismatches, the best and then leftmost one), so that scores   *)
(* differ, ties occur and several rounds are needed.  The real aligner is    *)
(* bound elsewhere (C01, C02, C07); here only the stage logic is examined.   *)
(***************************************************************************)
EXTENDS AdapterCutting, FiniteSets, TLC
CONSTANTS Alphabet, MaxLen, Pool      \* read alphabet, longest read, indices of the adapter lists tried

VARIABLES st, read, adlist, action, times, tbl      \* tbl: the matcher's graph for this read (computed once per state)
vars == <<st, read, adlist, action, times, tbl>>

\* ---- the concrete matcher -------------------------------------------------------
Mism(p, s, pos) == Cardinality({i \in 1..Len(p) : s[pos + i] # p[i]})          \* pattern p against s[pos+1 .. pos+|p|]
Cands(p, s) == {pos \in 0..(Len(s) - Len(p)) : Mism(p, s, pos) <= 1}
BestPos(p, s) ==          \* fewest mismatches, then leftmost
  CHOOSE pos \in Cands(p, s) : \A q \in Cands(p, s) : Mism(p, s, pos) < Mism(p, s, q) \/ (Mism(p, s, pos) = Mism(p, s, q) /\ pos <= q)
\* placement: "front" = anywhere in the read, the read is cut behind it; "back": cut from its start; "prefix": at position 0 only
RowOf(id, kind, p, s) ==
  LET cs == IF kind = "prefix" THEN Cands(p, s) \cap {0} ELSE Cands(p, s) IN
  IF Len(p) > Len(s) \/ cs = {} THEN [ad |-> id, seq |-> s, found |-> FALSE, as |-> 0, ae |-> 0, rs |-> 0, re |-> 0, score |-> 0, errors |-> 0]
  ELSE LET pos == IF kind = "prefix" THEN 0 ELSE BestPos(p, s)
           e == Mism(p, s, pos)
       IN [ad |-> id, seq |-> s, found |-> TRUE, as |-> 0, ae |-> Len(p), rs |-> pos, re |-> pos + Len(p),
           score |-> Len(p) - 2 * e, errors |-> e]

\* parts: id -> <<kind, pattern>>   (65 A, 67 C, 71 G, 84 T)
Parts == << <<"back", <<65, 67>>>>, <<"back", <<65, 67, 65>>>>, <<"front", <<67, 65>>>>, <<"prefix", <<67, 67>>>>,
            <<"back", <<71>>>>, <<"front", <<65>>>> >>
Single(id, cls) == [id |-> id, name |-> <<48 + id>>, cls |-> cls, f |-> -1, b |-> -1, freq |-> FALSE, breq |-> FALSE]
Linked(id, f, b, fr, br) == [id |-> id, name |-> <<48 + id>>, cls |-> "linked", f |-> f, b |-> b, freq |-> fr, breq |-> br]
\* adapter lists (order matters: ties go to the first)
Lists == << <<Single(1, "back")>>,
            <<Single(1, "back"), Single(2, "back")>>,
            <<Single(2, "back"), Single(1, "back")>>,
            <<Single(3, "front"), Single(1, "back")>>,
            <<Single(5, "back"), Single(6, "front"), Single(1, "back")>>,
            <<Linked(7, 4, 1, TRUE, FALSE)>>,
            <<Linked(7, 3, 2, FALSE, TRUE), Single(5, "back")>>,
            <<Linked(7, 4, 5, TRUE, TRUE)>>,
            <<Single(3, "anywhere"), Single(2, "back")>> >>

Strs == UNION {[1..k -> Alphabet] : k \in 0..MaxLen}
Substrings(s) == UNION {{Slice(s, lo, hi) : hi \in lo..Len(s)} : lo \in 0..Len(s)}
SX == INSTANCE SequencesExt
\* the whole graph of the matcher on everything the stage can search: substrings of the read and of its reverse complement
TableOf(s) ==
  LET subs == Substrings(s) \cup Substrings(RevComp(s))
      rows == {RowOf(id, Parts[id][1], Parts[id][2], x) : id \in 1..Len(Parts), x \in subs}
  IN SX!SetToSeq(rows)

Init == /\ st = "cfg" /\ read = <<>> /\ adlist \in Pool /\ action \in {"trim", "mask", "lowercase", "none", "retain", "crop"}
        /\ times \in 1..3 /\ tbl = <<>>
Next == /\ st = "cfg" /\ st' = "read" /\ read' \in Strs /\ tbl' = TableOf(read') /\ UNCHANGED <<adlist, action, times>>
Spec == Init /\ [][Next]_vars

\* ---- what is examined ---------------------------------------------------------------
Ads == Lists[adlist]
HasLinked == \E i \in 1..Len(Ads) : Ads[i].cls = "linked"
Meaningful == /\ (action \in {"retain", "crop"} => times = 1)
              /\ (HasLinked => action \notin {"mask", "crop"})          \* documented: not for linked adapters
R == [name |-> <<114>>, seq |-> read, qual |-> [i \in 1..Len(read) |-> i]]     \* qualities = positions: slices are visible
T == tbl
Res == Rounds(T, Ads, Searched(action, read), times)
Out == Cut1(T, Ads, action, times, R)

\* C03: what is written is an aligned slice of what was read; qualities are the same slice
SliceInvariant ==
  (st = "read" /\ Meaningful /\ action \in {"trim", "retain", "crop"}) =>
     \E lo \in 0..Len(read) : \E hi \in lo..Len(read) :
        /\ Out[1].seq = Slice(Searched(action, read), lo, hi) /\ Out[1].qual = Slice(R.qual, lo, hi)
\* C03: mask / lowercase keep the length and change exactly what trimming would remove; none changes nothing
InPlaceInvariant ==
  (st = "read" /\ Meaningful /\ action \in {"mask", "lowercase", "none"}) =>
     LET tr == Cut1(T, Ads, "trim", times, [R EXCEPT !.seq = Searched(action, read)])
         keptPos == {tr[1].qual[i] : i \in 1..Len(tr[1].qual)}                  \* positions that trimming keeps
     IN /\ Len(Out[1].seq) = Len(read) /\ Out[1].qual = R.qual
        /\ action = "none" => Out[1].seq = read
        /\ (action = "mask" /\ Out[2] # <<>>) =>
              \A i \in 1..Len(read) : Out[1].seq[i] = (IF i \in keptPos THEN read[i] ELSE 78)
        /\ (action = "lowercase" /\ Out[2] # <<>>) =>
              \A i \in 1..Len(read) : Out[1].seq[i] = (IF i \in keptPos THEN Upper(read[i]) ELSE LowerC(read[i]))
\* C09: in every round the applied match is the best of all adapters on what the previous round left:
\* highest score, then fewest errors, then the adapter given first
Rank(id) == CHOOSE i \in 1..Len(Ads) : Ads[i].id = id
RECURSIVE SearchedIn(_, _, _, _)
SearchedIn(s, ms, k, j) ==          \* the sequence round k searched
  IF j >= k THEN s ELSE LET r == RemainderOf(ms[j]) IN SearchedIn(Slice(s, r[1], r[2]), ms, k, j + 1)
BestOfInvariant ==
  (st = "read" /\ Meaningful) =>
     \A k \in 1..Len(Res[3]) :
        LET s == SearchedIn(Searched(action, read), Res[3], k, 1)
            m == Res[3][k]
        IN /\ m = MatchOf(T, Ads[Rank(m.ad)], s)                       \* it is that adapter's match on that sequence
           /\ \A i \in 1..Len(Ads) :
                 LET x == MatchOf(T, Ads[i], s) IN
                 IsMatch(x) => \/ m.score > x.score
                               \/ (m.score = x.score /\ m.errors < x.errors)
                               \/ (m.score = x.score /\ m.errors = x.errors /\ Rank(m.ad) <= i)
\* C09: one adapter per round, until nothing matches or the limit is reached
RoundsInvariant ==
  (st = "read" /\ Meaningful) =>
     /\ Len(Res[3]) <= times
     /\ Len(Res[3]) < times =>
          LET s == SearchedIn(Searched(action, read), Res[3], Len(Res[3]) + 1, 1) IN
          \A i \in 1..Len(Ads) : ~IsMatch(MatchOf(T, Ads[i], s))
     /\ Res[1] <= Res[2] /\ Res[2] <= Len(read)
\* C09: a linked adapter leaves the read untouched when a required part is missing, and counts only with all required parts
LinkedInvariant ==
  (st = "read" /\ Meaningful) =>
     \A k \in 1..Len(Res[3]) :
        LET m == Res[3][k] a == Ads[Rank(m.ad)] IN
        m.linked => /\ (a.freq => m.hasF) /\ (a.breq => m.hasB) /\ (m.hasF \/ m.hasB)
                    /\ (m.hasF /\ m.hasB => m.b.len = m.len - m.f.re)          \* the 3' part was searched in what the 5' part left
\* C16: the reverse complement is taken iff it has a match and a strictly higher total score
RevCompInvariant ==
  (st = "read" /\ Meaningful) =>
     LET x == CutRevComp(T, Ads, action, times, R)
         fw == Cut1(T, Ads, action, times, R)
         rv == Cut1(T, Ads, action, times, RevCompRead(R))
     IN /\ x[3] = (rv[2] # <<>> /\ SumScores(rv[2], 1) > SumScores(fw[2], 1))
        /\ (~x[3] => x[1] = fw[1] /\ x[2] = fw[2])
        /\ (x[3] => x[1] = rv[1] /\ x[2] = rv[2] /\ Len(x[1].qual) = Len(x[1].seq))
\* (vacuity guard, checked with -coverage / by the counters below) several rounds and ties do occur
SomeTwoRounds == st = "read" /\ Len(Res[3]) >= 2
=============================================================================
