SPECIFICATION Spec
INVARIANT SingleEndIsClean
INVARIANT PairedHasBothMates
INVARIANT BothOutcomesOccur
CHECK_DEADLOCK FALSE
