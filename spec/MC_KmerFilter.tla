---------------------------- MODULE MC_KmerFilter ----------------------------
(* Design-level model check of the prefilter: for every adapter configuration and every read
   within the bounds, an admissible occurrence implies that the search sets built by the
   (transcribed) construction are satisfied.  Widen/Guard select the original or the repaired
   construction. *)
EXTENDS KmerFilter, TLC
CONSTANTS AAlpha, RAlpha, MinA, MaxA, MaxR, Rates, Ovls, Types, Widen, Guard
VARIABLES st, typ, a, r, rate, ovl, ind
vars == <<st, typ, a, r, rate, ovl, ind>>
RatesQuick == {<<1, 3>>, <<1, 2>>}
RatesThorough == {<<1, 5>>, <<1, 3>>, <<1, 2>>}
AStr == UNION {[1..k -> AAlpha] : k \in MinA..MaxA}
RStr == UNION {[1..k -> RAlpha] : k \in 0..MaxR}
Init == /\ st = "start" /\ typ \in Types /\ a \in AStr /\ r = <<>> /\ rate \in Rates /\ ovl \in Ovls
        /\ ind \in BOOLEAN
Next == /\ st = "start" /\ st' = "chosen" /\ r' \in RStr /\ UNCHANGED <<typ, a, rate, ovl, ind>>
Spec == Init /\ [][Next]_vars

Cfg == [rule |-> typ, num |-> rate[1], den |-> rate[2], ovl |-> ovl, aw |-> FALSE, rw |-> FALSE, indels |-> ind]
EffO == EffOvl(Cfg, Len(a))
Sets == LET w == SetsWanted(typ) IN
        IF typ = "RightmostFront"
        THEN PositionsAndKmers(Reverse(a), EffO, rate[1], rate[2], w[1], w[2], w[3], Widen /\ ind)
        ELSE PositionsAndKmers(a, EffO, rate[1], rate[2], w[1], w[2], w[3], Widen /\ ind)
\* anchored adapters without indels use a plain comparer and no prefilter at all
NoFilter == typ \in {"Prefix", "Suffix"} /\ ~ind
Safe == (st = "chosen" /\ ~NoFilter) =>
           IF typ = "RightmostFront"
           THEN (DeclAdmissible(Cfg, a, r) => Present(Sets, Reverse(r), FALSE, FALSE))
           ELSE PrefilterSafe(Cfg, a, r, Sets, Guard)
=============================================================================
