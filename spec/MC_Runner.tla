------------------------------ MODULE MC_Runner ------------------------------
(* Exhaustive exploration of the Runner protocol for NW workers and NC chunks and every fault
   of the kinds in Kinds: safety invariants in every state, and liveness ("never hangs")
   under weak fairness of every process. *)
EXTENDS Runner
CONSTANTS NW, NC, Kinds
MCInit == InitWith(NW, NC, Kinds)
Spec == MCInit /\ [][Next]_vars /\ Fairness
SafetySpec == MCInit /\ [][Next]_vars
View == pvars
=============================================================================
