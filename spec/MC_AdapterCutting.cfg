\* quick: reads over {A,C,G} up to length 4, nine adapter lists, six actions, 1..3 rounds
CONSTANTS
  Alphabet = {65, 67, 71}
  MaxLen = 4
  Pool = {1, 2, 3, 4, 5, 6, 7, 8, 9}
SPECIFICATION Spec
INVARIANT SliceInvariant
INVARIANT InPlaceInvariant
INVARIANT BestOfInvariant
INVARIANT RoundsInvariant
INVARIANT LinkedInvariant
INVARIANT RevCompInvariant
CHECK_DEADLOCK FALSE
