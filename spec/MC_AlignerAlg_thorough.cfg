\* thorough: adapters over {A,C,N} length 1..3, reads over {A,C,a} length 0..5
CONSTANTS
  AAlpha = {65, 67, 78}
  RAlpha = {65, 67, 97}
  MaxA = 3
  MaxR = 5
  Rates <- RatesThorough
  Ovls = {1, 2, 3}
  RuleSet = {"Back", "Front", "Prefix", "Suffix", "FrontNI", "BackNI", "Anywhere", "RightmostFront"}
SPECIFICATION Spec
INVARIANT AlgSound
INVARIANT AlgComplete
INVARIANT AlgCuts
CHECK_DEADLOCK FALSE
