\* thorough: 3 workers, 4 chunks, every fault kind and position; safety + liveness
CONSTANTS
  NW = 3
  NC = 4
  Kinds = {"none", "badchunk", "readerfail", "startfail"}
SPECIFICATION Spec
VIEW View
INVARIANT TypeOK
INVARIANT OrderedPrefix
INVARIANT EachChunkOnce
INVARIANT StatsOncePerWorker
INVARIANT OkMeansComplete
INVARIANT FaultNeverOk
INVARIANT WriterNeverAhead
PROPERTY Live
CHECK_DEADLOCK TRUE
