---------------------------- MODULE MC_AlignerAlg ----------------------------
(* The transcribed algorithm against the declarative property, for ALL small inputs: whatever
   AlgLocate reports is a genuine in-tolerance occurrence (C01), it reports something whenever the
   property demands it (C02), and the cut positions respect the exact copies (C02). *)
EXTENDS AlignerAlg, TLC
CONSTANTS AAlpha, RAlpha, MaxA, MaxR, Rates, Ovls, RuleSet
VARIABLES st, rule, a, r, rate, ovl, ind
vars == <<st, rule, a, r, rate, ovl, ind>>
RatesQuick == {<<0, 1>>, <<1, 3>>, <<1, 2>>}
RatesThorough == {<<0, 1>>, <<1, 5>>, <<1, 3>>, <<1, 2>>}
AStr == UNION {[1..k -> AAlpha] : k \in 1..MaxA}
RStr == UNION {[1..k -> RAlpha] : k \in 0..MaxR}
Init == /\ st = "start" /\ rule \in RuleSet /\ a \in AStr /\ r = <<>> /\ rate \in Rates /\ ovl \in Ovls /\ ind \in BOOLEAN
Next == st = "start" /\ st' = "chosen" /\ r' \in RStr /\ UNCHANGED <<rule, a, rate, ovl, ind>>
Spec == Init /\ [][Next]_vars
HasW == \E i \in 1..Len(a) : a[i] \notin {65, 67, 71, 84}
Cfg == [rule |-> rule, num |-> rate[1], den |-> rate[2], ovl |-> ovl, aw |-> HasW, rw |-> FALSE, indels |-> ind]
Valid == ~(HasW /\ \A i \in 1..Len(a) : a[i] = 78)           \* an all-N adapter is rejected by the aligner
Res == AlgLocate(Cfg, a, r)
AlgSound == (st = "chosen" /\ Valid /\ Res[1]) => Sound(Cfg, a, r, Res[2])
AlgComplete == (st = "chosen" /\ Valid /\ ~Res[1]) => ~MustFind(Cfg, a, r)
AlgCuts == (st = "chosen" /\ Valid) =>
             /\ Cut3pAtOrBeforeLeftmostCopy(Cfg, a, r, Res[1], Res[2])
             /\ Cut5pAtOrBeforeLeftmostCopyEnd(Cfg, a, r, Res[1], Res[2])
             /\ RightmostAtOrAfterRightmostCopyEnd(Cfg, a, r, Res[1], Res[2])
             /\ AnchoredExactRemovedExactly(Cfg, a, r, Res[1], Res[2])
=============================================================================
