------------------------------- MODULE Bases -------------------------------
(***************************************************************************)
(* Characters and the documented comparison regimes.                        *)
(* Reads and adapters are Seq(0..127) of ASCII codes.                       *)
(*                                                                          *)
(* CharMatch(a, r, aw, rw): does adapter character a match read character r *)
(*   ~aw /\ ~rw : plain comparison after upper-casing                        *)
(*    aw /\ ~rw : adapter IUPAC code against read nucleotide; adapter N      *)
(*                additionally matches every read character                 *)
(*   ~aw /\  rw : symmetric (read IUPAC code against adapter nucleotide)      *)
(*    aw /\  rw : IUPAC sets intersect (N matches N)                         *)
(* aw is the *effective* flag: adapter wildcards requested and the adapter   *)
(* contains a non-ACGT character.  Nucleotides are 1..4 (A, C, G, T); 5 is   *)
(* the extra "anything else" element that only N carries.                   *)
(***************************************************************************)
EXTENDS Integers, Sequences, FiniteSets

Upper(c) == IF c >= 97 /\ c <= 122 THEN c - 32 ELSE c

IupacSet(c) ==
  CASE c = 65 -> {1}          \* A
    [] c = 67 -> {2}          \* C
    [] c = 71 -> {3}          \* G
    [] c = 84 -> {4}          \* T
    [] c = 85 -> {4}          \* U
    [] c = 82 -> {1, 3}       \* R = A|G
    [] c = 89 -> {2, 4}       \* Y = C|T
    [] c = 83 -> {2, 3}       \* S = G|C
    [] c = 87 -> {1, 4}       \* W = A|T
    [] c = 75 -> {3, 4}       \* K = G|T
    [] c = 77 -> {1, 2}       \* M = A|C
    [] c = 66 -> {2, 3, 4}    \* B
    [] c = 68 -> {1, 3, 4}    \* D
    [] c = 72 -> {1, 2, 4}    \* H
    [] c = 86 -> {1, 2, 3}    \* V
    [] c = 78 -> {1, 2, 3, 4, 5}  \* N matches everything
    [] OTHER -> {}            \* X and non-IUPAC characters match nothing

NucSet(c) ==
  CASE c = 65 -> {1} [] c = 67 -> {2} [] c = 71 -> {3} [] c = 84 -> {4} [] c = 85 -> {4}
    [] OTHER -> {5}

CharMatch(a, r, aw, rw) ==
  IF ~aw /\ ~rw THEN Upper(a) = Upper(r)
  ELSE (IF aw THEN IupacSet(Upper(a)) ELSE NucSet(Upper(a)))
         \cap (IF rw THEN IupacSet(Upper(r)) ELSE NucSet(Upper(r))) # {}

Complement(c) ==
  CASE c = 65 -> 84 [] c = 67 -> 71 [] c = 71 -> 67 [] c = 84 -> 65
    [] c = 97 -> 116 [] c = 99 -> 103 [] c = 103 -> 99 [] c = 116 -> 97
    [] c = 85 -> 65 [] c = 117 -> 97
    [] c = 82 -> 89 [] c = 89 -> 82 [] c = 75 -> 77 [] c = 77 -> 75
    [] c = 66 -> 86 [] c = 86 -> 66 [] c = 68 -> 72 [] c = 72 -> 68
    [] c = 114 -> 121 [] c = 121 -> 114 [] c = 107 -> 109 [] c = 109 -> 107
    [] c = 98 -> 118 [] c = 118 -> 98 [] c = 100 -> 104 [] c = 104 -> 100
    [] OTHER -> c

Reverse(s) == [i \in 1..Len(s) |-> s[Len(s) - i + 1]]
RevComp(s) == [i \in 1..Len(s) |-> Complement(s[Len(s) - i + 1])]
\* 0-based half-open; total: bounds outside the sequence are clipped (a start below 0 to 0, an end beyond the
\* sequence to its length), so that a wrong coordinate observed from the code is judged by a clause, not by an
\* evaluation error
Slice(s, lo, hi) == SubSeq(s, (IF lo < 0 THEN 0 ELSE lo) + 1, IF hi > Len(s) THEN Len(s) ELSE hi)
UpperSeq(s) == [i \in 1..Len(s) |-> Upper(s[i])]
LowerC(c) == IF c >= 65 /\ c <= 90 THEN c + 32 ELSE c
LowerSeq(s) == [i \in 1..Len(s) |-> LowerC(s[i])]
Min2(x, y) == IF x <= y THEN x ELSE y
Max2(x, y) == IF x >= y THEN x ELSE y
=============================================================================
