SPECIFICATION Spec
INVARIANT FormatIndependent
INVARIANT FormatIsFastaOrFastq
CHECK_DEADLOCK FALSE
