SPECIFICATION Spec
INVARIANT FormatIndependent
INVARIANT FormatIsFastaOrFastq
INVARIANT RefusalIndependent
CHECK_DEADLOCK FALSE
