--------------------------- MODULE MC_AdapterIndex ---------------------------
(* Exhaustive check of the index construction for every list (hence every order) of NA distinct
   adapters over Sigma of the given lengths: the built index equals the order-independent
   declarative index (IndexIsBest, AmbiguousIffTie, OrderIndependent in one equality), and the
   look-up reports an adapter whenever exactly one adapter occurs within tolerance at the
   anchored end of a read (every read over Sigma up to MaxR). *)
EXTENDS AdapterIndex
CONSTANTS Sigma, Lens, NA, K, Indels, Clear, MaxR
VARIABLES st, ads, r
vars == <<st, ads, r>>
Strs(n) == [1..n -> Sigma]
AllStrings == UNION {Strs(n) : n \in 0..MaxR}
AdSeqs == UNION {Strs(n) : n \in Lens}
AdLists == {l \in [1..NA -> AdSeqs] : \A i, j \in 1..NA : i # j => l[i] # l[j]}
Mk(l) == [i \in 1..NA |-> [seq |-> l[i], k |-> K, indels |-> Indels]]
Init == st = "built" /\ ads \in {Mk(l) : l \in AdLists} /\ r = <<>>
Next == st = "built" /\ st' = "lookup" /\ r' \in AllStrings /\ UNCHANGED ads
Spec == Init /\ [][Next]_vars

Index == Build(AllStrings, ads, Clear)
IndexIsDeclarative ==
  st = "built" => /\ DOMAIN Index = DeclIndexDomain(AllStrings, ads)
                  /\ \A s \in DOMAIN Index : Index[s][1] = DeclAdapter(s, ads)
                                             /\ <<Index[s][2], Index[s][3]>> = Entry(s, ads[Index[s][1]])
Lengths == LET S == {Len(s) : s \in DOMAIN Index} IN
           IF S = {} THEN <<>> ELSE
           LET RECURSIVE Desc(_) 
               Desc(T) == IF T = {} THEN <<>> ELSE LET m == CHOOSE x \in T : \A y \in T : y <= x IN <<m>> \o Desc(T \ {m})
           IN Desc(S)
Occurs(n) == \E L \in 0..Len(r) : Entry(Affix(r, L, TRUE), ads[n])[1] >= 0
UniqueOccurrenceFound ==
  st = "lookup" =>
    LET occ == {n \in 1..NA : Occurs(n)}
        res == Lookup(Index, r, Lengths, TRUE)
    IN /\ (Cardinality(occ) = 1 => res[3] >= 0 /\ res[1] \in occ)
       /\ (res[3] >= 0 => /\ res[4] <= Len(r)
                          /\ <<res[2], res[3]>> = Entry(Affix(r, res[4], TRUE), ads[res[1]]))
=============================================================================
