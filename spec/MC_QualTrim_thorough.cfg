\* thorough: 5 quality levels, length <= 7, three cutoffs
CONSTANTS
  QV = {0, 1, 2, 3, 5}
  MaxLen = 7
  Cuts = {0, 2, 3}
SPECIFICATION Spec
INVARIANT ScanIsDecl3
INVARIANT ScanIsDecl5
INVARIANT MachineIsDecl
INVARIANT Unchanged
INVARIANT Empty
INVARIANT LoopInv
CHECK_DEADLOCK FALSE
