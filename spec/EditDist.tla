------------------------------ MODULE EditDist ------------------------------
(***************************************************************************)
(* Hamming and unit-cost edit distance under a character relation, in the   *)
(* row-folding form used everywhere (fast in TLC) and in a declarative form *)
(* (minimum over all alignments, tiny strings only); MC_EditDist checks the *)
(* two agree.  Also the semi-global variants needed for completeness (C02). *)
(***************************************************************************)
EXTENDS Bases

\* -------- Hamming: number of positions of equal-length a, r that do not match
RECURSIVE HamFrom(_, _, _, _, _)
HamFrom(a, r, aw, rw, i) ==
  IF i > Len(a) THEN 0
  ELSE (IF CharMatch(a[i], r[i], aw, rw) THEN 0 ELSE 1) + HamFrom(a, r, aw, rw, i + 1)
Hamming(a, r, aw, rw) == HamFrom(a, r, aw, rw, 1)

\* -------- one DP row.  prev: row for adapter prefix i-1 (index j+1 holds column j), ach = a[i];
\* first: value of column 0 in the new row.
RECURSIVE BuildRow(_, _, _, _, _, _, _)
BuildRow(prev, ach, r, aw, rw, j, acc) ==
  IF j > Len(r) THEN acc
  ELSE LET sub == prev[j] + (IF CharMatch(ach, r[j], aw, rw) THEN 0 ELSE 1)
           del == prev[j + 1] + 1
           ins == acc[j] + 1
       IN BuildRow(prev, ach, r, aw, rw, j + 1, Append(acc, Min2(sub, Min2(del, ins))))

NextRow(prev, ach, r, aw, rw, first) == BuildRow(prev, ach, r, aw, rw, 1, <<first>>)

\* -------- global edit distance of a and r
RECURSIVE EDRows(_, _, _, _, _, _)
EDRows(prev, a, r, aw, rw, i) ==
  IF i > Len(a) THEN prev[Len(r) + 1]
  ELSE EDRows(NextRow(prev, a[i], r, aw, rw, i), a, r, aw, rw, i + 1)
ED(a, r, aw, rw) == EDRows([j \in 1..(Len(r) + 1) |-> j - 1], a, r, aw, rw, 1)

\* -------- declarative edit distance (definition): minimum over alignments, by structural recursion
RECURSIVE DeclED(_, _, _, _)
DeclED(a, r, aw, rw) ==
  IF Len(a) = 0 THEN Len(r)
  ELSE IF Len(r) = 0 THEN Len(a)
  ELSE Min2(DeclED(Tail(a), Tail(r), aw, rw) + (IF CharMatch(a[1], r[1], aw, rw) THEN 0 ELSE 1),
            Min2(DeclED(Tail(a), r, aw, rw) + 1, DeclED(a, Tail(r), aw, rw) + 1))
=============================================================================
