\* quick: 4 quality levels around cutoffs {1,2}, length <= 5
CONSTANTS
  QV = {0, 1, 2, 4}
  MaxLen = 5
  Cuts = {0, 1, 2}
SPECIFICATION Spec
INVARIANT ScanIsDecl3
INVARIANT ScanIsDecl5
INVARIANT MachineIsDecl
INVARIANT Unchanged
INVARIANT Empty
INVARIANT LoopInv
CHECK_DEADLOCK FALSE
