\* simulation config: behaviours of the protocol under every kind of fault, for replay into the real runner
CONSTANTS
  NW = 3
  NC = 4
  Kinds = {"badchunk", "readerfail"}
SPECIFICATION SafetySpec
CHECK_DEADLOCK FALSE
