------------------------------ MODULE TraceIO ------------------------------
(* Shared plumbing of all trace specifications: the recorded observations of the real
   code are one JSON object per line in the file named by the environment variable
   TRACE_FILE; a rejected clause prints <<"VIOL", id, clause>> and validation continues,
   so one TLC run yields the verdict for every observation in the batch. *)
EXTENDS Json, IOUtils, TLC, Sequences, Integers
Trace == ndJsonDeserialize(IOEnv.TRACE_FILE)
Rep(id, clause, ok) == IF ok THEN TRUE ELSE PrintT(<<"VIOL", id, clause>>)
RepK3(id, clause, k, ok) == IF ok THEN TRUE ELSE PrintT(<<"VIOL", id, clause, k>>)
=============================================================================
