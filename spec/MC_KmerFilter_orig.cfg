\* original construction: TLC is expected to find the false negative (a candidate, rule R1)
CONSTANTS
  AAlpha = {65, 67}
  RAlpha = {65, 67, 71}
  MinA = 3
  MaxA = 4
  MaxR = 6
  Rates <- RatesQuick
  Ovls = {1, 3}
  Types = {"Back", "Front", "RightmostFront", "Anywhere", "FrontNI", "BackNI", "Prefix", "Suffix"}
  Widen = FALSE
  Guard = FALSE
SPECIFICATION Spec
INVARIANT Safe
CHECK_DEADLOCK FALSE
