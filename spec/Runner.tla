------------------------------- MODULE Runner -------------------------------
(***************************************************************************)
(* The multi-core runner protocol of runners.py (C06, C12).                 *)
(*                                                                          *)
(* Processes: one reader, workers 0..nw-1, the collecting main process.      *)
(* Channels: the need-work queue (worker ids), one pipe reader->worker       *)
(* (inbox), one pipe worker->main (outbox), the file-format pipe (ffbox).    *)
(* One action per hook event of the implementation, i.e. per linearisation   *)
(* point: the state change of a step followed by its hook; blocking          *)
(* receives are the action guards.  All messages a step sends back to back   *)
(* travel as one message group (chunk index + payload; index + count +       *)
(* one block per output file; -2 + exception).                               *)
(*                                                                          *)
(* Faults (chosen in Init, constant afterwards):                             *)
(*   none | badchunk at i   (a worker hits a format error in chunk i)         *)
(*        | readerfail at k (the reader fails when producing chunk k, k<=nc)  *)
(*        | startfail       (the input cannot be opened / format unknown)     *)
(*                                                                          *)
(* Deliberate abstractions: unbounded pipes; chunk contents opaque (bound to *)
(* bytes by the end-to-end comparison with the one-core run).                *)
(***************************************************************************)
EXTENDS Integers, Sequences, FiniteSets, TLC

VARIABLES
  nw, nc,     \* number of workers, number of chunks (never change)
  fault,      \* [kind, at]
  rpc, rnext, pills, queue, inbox, ffbox,
  wpc, processed, outbox,
  mpc, ready, open, cur, pend, out, merged,
  last        \* history: label of the action that led here (hidden by VIEW in model checking)

pvars == <<nw, nc, fault, rpc, rnext, pills, queue, inbox, ffbox, wpc, processed, outbox,
           mpc, ready, open, cur, pend, out, merged>>
vars == <<pvars, last>>

Workers == 0..(nw - 1)
Chunks == 0..(nc - 1)

NoFault == [kind |-> "none", at |-> 0]
FaultSetFor(c, kinds) ==
  (IF "none" \in kinds THEN {NoFault} ELSE {})
  \cup (IF "badchunk" \in kinds THEN {[kind |-> "badchunk", at |-> i] : i \in 0..(c - 1)} ELSE {})
  \cup (IF "readerfail" \in kinds THEN {[kind |-> "readerfail", at |-> k] : k \in 0..c} ELSE {})
  \cup (IF "startfail" \in kinds THEN {[kind |-> "startfail", at |-> 0]} ELSE {})

Chunk(i) == [k |-> "chunk", i |-> i]
Pill == [k |-> "pill", i |-> 0]
Exc == [k |-> "exc", i |-> 0]
Res(i) == [k |-> "res", i |-> i]
Stats == [k |-> "stats", i |-> 0]

InitWith(n, c, kinds) ==
  /\ nw = n /\ nc = c
  /\ fault \in FaultSetFor(c, kinds)
  /\ rpc = "init" /\ rnext = 0 /\ pills = 0 /\ queue = <<>>
  /\ inbox = [w \in 0..(n - 1) |-> <<>>] /\ ffbox = <<>>
  /\ wpc = [w \in 0..(n - 1) |-> "none"] /\ processed = [w \in 0..(n - 1) |-> <<>>]
  /\ outbox = [w \in 0..(n - 1) |-> <<>>]
  /\ mpc = "init" /\ ready = <<>> /\ open = {} /\ cur = 0 /\ pend = {} /\ out = <<>> /\ merged = <<>>
  /\ last = <<"Init">>

\* the same initial condition on the primed variables (used by the trace specification to start
\* the next recorded run)
ReinitWith(n, c, kinds) ==
  /\ nw' = n /\ nc' = c
  /\ fault' \in FaultSetFor(c, kinds)
  /\ rpc' = "init" /\ rnext' = 0 /\ pills' = 0 /\ queue' = <<>>
  /\ inbox' = [w \in 0..(n - 1) |-> <<>>] /\ ffbox' = <<>>
  /\ wpc' = [w \in 0..(n - 1) |-> "none"] /\ processed' = [w \in 0..(n - 1) |-> <<>>]
  /\ outbox' = [w \in 0..(n - 1) |-> <<>>]
  /\ mpc' = "init" /\ ready' = <<>> /\ open' = {} /\ cur' = 0 /\ pend' = {} /\ out' = <<>> /\ merged' = <<>>
  /\ last' = <<"Init">>

(******************************* reader ***********************************)
RUnch == UNCHANGED <<nw, nc, fault, wpc, processed, outbox, mpc, ready, open, cur, pend, out, merged>>

RFormat ==
  /\ rpc = "init" /\ fault.kind # "startfail"
  /\ ffbox' = Append(ffbox, "fmt") /\ rpc' = "run"
  /\ UNCHANGED <<rnext, pills, queue, inbox>> /\ RUnch /\ last' = <<"RFormat">>

RFormatFail ==
  /\ rpc = "init" /\ fault.kind = "startfail"
  /\ ffbox' = Append(ffbox, "exc") /\ rpc' = "failing"
  /\ UNCHANGED <<rnext, pills, queue, inbox>> /\ RUnch /\ last' = <<"RFormatFail">>

ReaderFailsNow == \/ rpc = "failing"
                  \/ rpc = "run" /\ fault.kind = "readerfail" /\ fault.at = rnext

RFail ==   \* the exception path: -2 and the exception to every worker pipe
  /\ ReaderFailsNow
  /\ inbox' = [w \in Workers |-> Append(inbox[w], Exc)] /\ rpc' = "failed"
  /\ UNCHANGED <<rnext, pills, queue, ffbox>> /\ RUnch /\ last' = <<"RFail">>

RSend ==
  /\ rpc = "run" /\ rnext < nc /\ ~ReaderFailsNow /\ queue # <<>>
  /\ LET w == Head(queue) IN
       /\ inbox' = [inbox EXCEPT ![w] = Append(@, Chunk(rnext))]
       /\ last' = <<"RSend", rnext, w>>
  /\ rnext' = rnext + 1 /\ queue' = Tail(queue)
  /\ UNCHANGED <<rpc, pills, ffbox>> /\ RUnch

RPill ==
  /\ rpc = "run" /\ rnext = nc /\ ~ReaderFailsNow /\ pills < nw /\ queue # <<>>
  /\ LET w == Head(queue) IN
       /\ inbox' = [inbox EXCEPT ![w] = Append(@, Pill)]
       /\ last' = <<"RPill", w>>
  /\ pills' = pills + 1 /\ queue' = Tail(queue)
  /\ UNCHANGED <<rpc, rnext, ffbox>> /\ RUnch

RDone ==
  /\ rpc = "run" /\ rnext = nc /\ ~ReaderFailsNow /\ pills = nw
  /\ rpc' = "done"
  /\ UNCHANGED <<rnext, pills, queue, inbox, ffbox>> /\ RUnch /\ last' = <<"RDone">>

ReaderNext == RFormat \/ RFormatFail \/ RFail \/ RSend \/ RPill \/ RDone

(******************************* workers **********************************)
WUnch == UNCHANGED <<nw, nc, fault, rpc, rnext, pills, ffbox, mpc, ready, open, cur, pend, out, merged>>

WAsk(w) ==
  /\ wpc[w] = "idle"
  /\ queue' = Append(queue, w) /\ wpc' = [wpc EXCEPT ![w] = "waiting"]
  /\ UNCHANGED <<inbox, processed, outbox>> /\ WUnch /\ last' = <<"WAsk", w>>

WRecv(w) ==
  /\ wpc[w] = "waiting" /\ inbox[w] # <<>>
  /\ LET m == Head(inbox[w]) IN
       /\ inbox' = [inbox EXCEPT ![w] = Tail(@)]
       /\ CASE m.k = "chunk" /\ ~(fault.kind = "badchunk" /\ fault.at = m.i) ->
                 /\ processed' = [processed EXCEPT ![w] = Append(@, m.i)]
                 /\ outbox' = [outbox EXCEPT ![w] = Append(@, Res(m.i))]
                 /\ wpc' = [wpc EXCEPT ![w] = "idle"]
                 /\ last' = <<"WRes", w, m.i>>
            [] m.k = "chunk" /\ fault.kind = "badchunk" /\ fault.at = m.i ->
                 /\ outbox' = [outbox EXCEPT ![w] = Append(@, Exc)]
                 /\ wpc' = [wpc EXCEPT ![w] = "dead"]
                 /\ UNCHANGED processed /\ last' = <<"WExc", w>>
            [] m.k = "pill" ->
                 /\ outbox' = [outbox EXCEPT ![w] = Append(@, Stats)]
                 /\ wpc' = [wpc EXCEPT ![w] = "done"]
                 /\ UNCHANGED processed /\ last' = <<"WStats", w>>
            [] m.k = "exc" ->
                 /\ outbox' = [outbox EXCEPT ![w] = Append(@, Exc)]
                 /\ wpc' = [wpc EXCEPT ![w] = "dead"]
                 /\ UNCHANGED processed /\ last' = <<"WExc", w>>
  /\ UNCHANGED queue /\ WUnch

WorkerNext(w) == WAsk(w) \/ WRecv(w)

(******************************* main *************************************)
MUnch == UNCHANGED <<nw, nc, fault, rnext, pills, queue, inbox, processed>>

KillAll ==   \* terminate all children
  /\ rpc' = IF rpc \in {"done", "failed"} THEN rpc ELSE "killed"
  /\ wpc' = [w \in Workers |-> IF wpc[w] \in {"done", "dead", "none"} THEN wpc[w] ELSE "killed"]

MFormat ==
  /\ mpc = "init" /\ ffbox # <<>>
  /\ ffbox' = Tail(ffbox)
  /\ IF Head(ffbox) = "fmt"
       THEN mpc' = "start" /\ UNCHANGED <<rpc, wpc>> /\ last' = <<"MFormat">>
       ELSE mpc' = "failed" /\ KillAll /\ last' = <<"MExc">>
  /\ UNCHANGED <<outbox, ready, open, cur, pend, out, merged>> /\ MUnch

MStart ==
  /\ mpc = "start"
  /\ wpc' = [w \in Workers |-> "idle"] /\ open' = Workers /\ mpc' = "wait"
  /\ UNCHANGED <<rpc, ffbox, outbox, ready, cur, pend, out, merged>> /\ MUnch /\ last' = <<"MStart">>

ReadyWorkers == {w \in open : outbox[w] # <<>>}
\* multiprocessing.connection.wait: some non-empty set of the ready connections, in some order
Orders(S) == {s \in UNION {[1..k -> S] : k \in 1..Cardinality(S)} :
                 \A a, b \in 1..Len(s) : a # b => s[a] # s[b]}

MWait ==
  /\ mpc = "wait" /\ ReadyWorkers # {}
  /\ ready' \in Orders(ReadyWorkers) /\ mpc' = "proc"
  /\ UNCHANGED <<rpc, ffbox, wpc, outbox, open, cur, pend, out, merged>> /\ MUnch
  /\ last' = <<"MWait", ready'>>

\* OrderedChunkWriter.write: store, then release the longest run starting at cur
RECURSIVE Release(_, _, _)
Release(c, p, o) == IF c \in p THEN Release(c + 1, p \ {c}, Append(o, c)) ELSE <<c, p, o>>

MProc ==
  /\ mpc = "proc" /\ ready # <<>>
  /\ LET w == Head(ready)
         m == Head(outbox[w])
         more == Tail(ready) # <<>>
     IN /\ outbox' = [outbox EXCEPT ![w] = Tail(@)]
        /\ ready' = Tail(ready)
        /\ CASE m.k = "res" ->
                  LET rel == Release(cur, pend \cup {m.i}, out) IN
                  /\ cur' = rel[1] /\ pend' = rel[2] /\ out' = rel[3]
                  /\ mpc' = IF more THEN "proc" ELSE "wait"
                  /\ UNCHANGED <<rpc, wpc, open, merged>>
                  /\ last' = <<"MRes", w, m.i>>
             [] m.k = "stats" ->
                  /\ merged' = Append(merged, <<w, processed[w]>>)
                  /\ open' = open \ {w}
                  /\ mpc' = IF more THEN "proc" ELSE IF open' = {} THEN "join" ELSE "wait"
                  /\ UNCHANGED <<rpc, wpc, cur, pend, out>>
                  /\ last' = <<"MStats", w>>
             [] m.k = "exc" ->
                  /\ mpc' = "failed" /\ KillAll
                  /\ UNCHANGED <<open, cur, pend, out, merged>>
                  /\ last' = <<"MExc">>
  /\ UNCHANGED ffbox /\ MUnch

MFinish ==
  /\ mpc = "join" /\ rpc = "done" /\ \A w \in Workers : wpc[w] = "done"
  /\ mpc' = "done"
  /\ UNCHANGED <<rpc, ffbox, wpc, outbox, ready, open, cur, pend, out, merged>> /\ MUnch
  /\ last' = <<"MFinish">>

MainNext == MFormat \/ MStart \/ MWait \/ MProc \/ MFinish

Terminated == mpc \in {"done", "failed"}
Next == \/ ~Terminated /\ (ReaderNext \/ MainNext \/ \E w \in Workers : WorkerNext(w))
        \/ Terminated /\ UNCHANGED vars

(******************************* properties *******************************)
Range(s) == {s[i] : i \in 1..Len(s)}
OrderedPrefix == /\ out = [i \in 1..cur |-> i - 1]          \* chunks are written as 0,1,...,cur-1
                 /\ \A p \in pend : p > cur
EachChunkOnce == /\ \A i, j \in 1..Len(out) : i # j => out[i] # out[j]
                 /\ \A v, w \in Workers : v # w => Range(processed[v]) \cap Range(processed[w]) = {}
                 /\ \A w \in Workers : \A i, j \in 1..Len(processed[w]) : i # j => processed[w][i] # processed[w][j]
StatsOncePerWorker == \A i, j \in 1..Len(merged) : i # j => merged[i][1] # merged[j][1]
MergedChunks == UNION {Range(merged[i][2]) : i \in 1..Len(merged)}
OkMeansComplete ==
  mpc = "done" => /\ out = [i \in 1..nc |-> i - 1]
                  /\ pend = {}
                  /\ MergedChunks = Chunks
                  /\ Len(merged) = nw
                  /\ fault.kind = "none"
FaultNeverOk == fault.kind # "none" => mpc # "done"
WriterNeverAhead == \A i \in Range(out) : \E w \in Workers : i \in Range(processed[w])
TypeOK == /\ rpc \in {"init", "run", "failing", "done", "failed", "killed"}
          /\ mpc \in {"init", "start", "wait", "proc", "join", "done", "failed"}
          /\ \A w \in Workers : wpc[w] \in {"none", "idle", "waiting", "done", "dead", "killed"}
          /\ rnext \in 0..nc /\ pills \in 0..nw /\ cur \in 0..nc

Fairness == /\ WF_vars(ReaderNext) /\ WF_vars(MainNext)
            /\ \A w \in 0..3 : WF_vars(w \in Workers /\ WorkerNext(w))
\* C12 "never hangs": under fair scheduling of every process the main process terminates,
\* with a failure iff there is a fault.
Live == <>Terminated
=============================================================================
