\* quick: alphabet {A, C, N, T}, length <= 7
CONSTANTS
  Alpha = {65, 67, 78, 84}
  MaxLen = 7
SPECIFICATION Spec
INVARIANT PolyAScanIsDecl
INVARIANT PolyTScanIsDecl
INVARIANT PolyATailAtLeast3
INVARIANT PolyAWithin20pct
INVARIANT TrimNMaximal
INVARIANT NCountBothCases
INVARIANT TableSane
CHECK_DEADLOCK FALSE
