SPECIFICATION TSpec
INVARIANT TypeOK
INVARIANT OrderedPrefix
INVARIANT EachChunkOnce
INVARIANT StatsOncePerWorker
INVARIANT OkMeansComplete
INVARIANT FaultNeverOk
INVARIANT WriterNeverAhead
CHECK_DEADLOCK FALSE
