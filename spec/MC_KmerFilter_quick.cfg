\* quick: repaired construction (Widen, Guard), adapters over {A,C} of length 3..4, reads over {A,C,G} up to 5
CONSTANTS
  AAlpha = {65, 67}
  RAlpha = {65, 67, 71}
  MinA = 3
  MaxA = 4
  MaxR = 4
  Rates <- RatesQuick
  Ovls = {1, 3}
  Types = {"Back", "Front", "RightmostFront", "Anywhere", "FrontNI", "BackNI", "Prefix", "Suffix"}
  Widen = TRUE
  Guard = TRUE
SPECIFICATION Spec
INVARIANT Safe
CHECK_DEADLOCK FALSE
