\* thorough: adapters over {A,C,N} length 1..4, reads over {A,C,N} length 0..4
CONSTANTS
  AAlpha = {65, 67, 78}
  RAlpha = {65, 67, 78}
  MaxA = 4
  MaxR = 4
  Rates <- RatesThorough
  Ovls = {1, 2, 3}
SPECIFICATION Spec
INVARIANT EDIsDecl
INVARIANT CandsAreFiltered
INVARIANT SemiGlobalIsDecl
INVARIANT GapFreeImpliesIndel
INVARIANT ExactImpliesAdmissible
CHECK_DEADLOCK FALSE
