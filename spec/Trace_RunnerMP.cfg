SPECIFICATION TSpec
INVARIANT NotAllConsumed
INVARIANT TypeOK
INVARIANT OrderedPrefix
INVARIANT EachChunkOnce
INVARIANT StatsOncePerWorker
INVARIANT OkMeansComplete
INVARIANT FaultNeverOk
CHECK_DEADLOCK FALSE
