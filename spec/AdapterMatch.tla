---------------------------- MODULE AdapterMatch ----------------------------
(***************************************************************************)
(* What a genuine, in-tolerance occurrence of an adapter is (C01), when one  *)
(* must be found (C02), and where the cut may lie (C02).                     *)
(*                                                                          *)
(* cfg = [rule, num, den, ovl, aw, rw, indels]                               *)
(*   rule \in {"Back","Front","Prefix","Suffix","FrontNI","BackNI",           *)
(*             "Anywhere","RightmostFront"}  (the ;anywhere variants carry    *)
(*             rule "Anywhere")                                              *)
(*   num/den : maximum error rate as a rational                              *)
(*   ovl     : requested minimum overlap (-O)                                *)
(*   aw, rw  : effective adapter-wildcard flag, read-wildcard flag           *)
(* a, r : adapter and read; an occurrence is <<as, ae, rs, re>>, 0-based      *)
(* half-open intervals of adapter and read.                                  *)
(***************************************************************************)
EXTENDS EditDist

Rules == {"Back", "Front", "Prefix", "Suffix", "FrontNI", "BackNI", "Anywhere", "RightmostFront"}

(* The placement rule of each adapter type, derived from the documented end-skip semantics. *)
Placement(rule, m, n, as, ae, rs, re) ==
  CASE rule = "Back"           -> as = 0 /\ (ae = m \/ re = n)
    [] rule = "Front"          -> ae = m /\ (as = 0 \/ rs = 0)
    [] rule = "RightmostFront" -> ae = m /\ (as = 0 \/ rs = 0)
    [] rule = "Prefix"         -> as = 0 /\ ae = m /\ rs = 0
    [] rule = "Suffix"         -> as = 0 /\ ae = m /\ re = n
    [] rule = "FrontNI"        -> ae = m /\ rs = 0
    [] rule = "BackNI"         -> as = 0 /\ re = n
    [] rule = "Anywhere"       -> (as = 0 \/ rs = 0) /\ (ae = m \/ re = n)

\* anchored adapters must occur in full; otherwise -O, clamped to the adapter length
EffOvl(cfg, m) == IF cfg.rule \in {"Prefix", "Suffix"} THEN m ELSE Min2(cfg.ovl, m)

\* number of aligned adapter bases that are not N wildcards
EffLen(a, as, ae, aw) ==
  IF aw THEN Cardinality({i \in (as + 1)..ae : a[i] # 78}) ELSE ae - as

Dist(cfg, a, r, as, ae, rs, re) ==
  IF cfg.indels THEN ED(Slice(a, as, ae), Slice(r, rs, re), cfg.aw, cfg.rw)
  ELSE Hamming(Slice(a, as, ae), Slice(r, rs, re), cfg.aw, cfg.rw)

(*************************** C01 clauses **********************************)
InBounds(a, r, as, ae, rs, re) ==
  0 <= as /\ as <= ae /\ ae <= Len(a) /\ 0 <= rs /\ rs <= re /\ re <= Len(r)
PlacementOK(cfg, a, r, as, ae, rs, re) == Placement(cfg.rule, Len(a), Len(r), as, ae, rs, re)
MinOverlapOK(cfg, a, as, ae) == ae - as >= EffOvl(cfg, Len(a))
NoIndelShape(cfg, as, ae, rs, re) == cfg.indels \/ (ae - as = re - rs)
ErrorsAreDistance(cfg, a, r, as, ae, rs, re, errors) ==
  (cfg.indels \/ ae - as = re - rs) => errors = Dist(cfg, a, r, as, ae, rs, re)
WithinRate(cfg, a, as, ae, errors) == errors * cfg.den <= EffLen(a, as, ae, cfg.aw) * cfg.num

Sound(cfg, a, r, res) ==
  /\ InBounds(a, r, res[1], res[2], res[3], res[4])
  /\ PlacementOK(cfg, a, r, res[1], res[2], res[3], res[4])
  /\ MinOverlapOK(cfg, a, res[1], res[2])
  /\ NoIndelShape(cfg, res[1], res[2], res[3], res[4])
  /\ ErrorsAreDistance(cfg, a, r, res[1], res[2], res[3], res[4], res[6])
  /\ WithinRate(cfg, a, res[1], res[2], res[6])

(*************************** gap-free candidates **************************)
(* All <<as, rs, L>> (L >= 1) such that a[as..as+L) against r[rs..rs+L) satisfies the
   placement rule -- written out per rule so that TLC enumerates O(m+n) candidates instead
   of filtering O(m*n*min(m,n)); MC_AdapterMatch checks this equals the filtered set. *)
GapFreeCands(rule, m, n) ==
  LET mn == Min2(m, n)
      fullA == IF n >= m THEN {<<0, rs, m>> : rs \in 0..(n - m)} ELSE {}   \* whole adapter inside the read
      endR  == {<<0, n - L, L>> : L \in 1..mn}                             \* adapter prefix at the read end
      begR  == {<<m - L, 0, L>> : L \in 1..mn}                             \* adapter suffix at the read start
      fullR == IF m >= n /\ n >= 1 THEN {<<s, 0, n>> : s \in 0..(m - n)} ELSE {}  \* whole read inside the adapter
  IN CASE rule = "Back"           -> fullA \cup endR
       [] rule = "Front"          -> fullA \cup begR
       [] rule = "RightmostFront" -> fullA \cup begR
       [] rule = "Prefix"         -> IF n >= m THEN {<<0, 0, m>>} ELSE {}
       [] rule = "Suffix"         -> IF n >= m THEN {<<0, n - m, m>>} ELSE {}
       [] rule = "FrontNI"        -> begR
       [] rule = "BackNI"         -> endR
       [] rule = "Anywhere"       -> fullA \cup endR \cup begR \cup fullR

FilteredCands(rule, m, n) ==
  {c \in (0..m) \X (0..n) \X (1..Max2(1, Min2(m, n))) :
      c[1] + c[3] <= m /\ c[2] + c[3] <= n /\ Placement(rule, m, n, c[1], c[1] + c[3], c[2], c[2] + c[3])}

RECURSIVE ExactFrom(_, _, _, _, _, _, _)
ExactFrom(a, r, aw, rw, as, rs, L) ==
  L = 0 \/ (CharMatch(a[as + L], r[rs + L], aw, rw) /\ ExactFrom(a, r, aw, rw, as, rs, L - 1))
RECURSIVE HamCount(_, _, _, _, _, _, _)
HamCount(a, r, aw, rw, as, rs, L) ==
  IF L = 0 THEN 0
  ELSE (IF CharMatch(a[as + L], r[rs + L], aw, rw) THEN 0 ELSE 1) + HamCount(a, r, aw, rw, as, rs, L - 1)

ExactOccurrenceExists(cfg, a, r) ==
  \E c \in GapFreeCands(cfg.rule, Len(a), Len(r)) :
     c[3] >= EffOvl(cfg, Len(a)) /\ ExactFrom(a, r, cfg.aw, cfg.rw, c[1], c[2], c[3])

GapFreeAdmissibleExists(cfg, a, r) ==
  \E c \in GapFreeCands(cfg.rule, Len(a), Len(r)) :
     /\ c[3] >= EffOvl(cfg, Len(a))
     /\ HamCount(a, r, cfg.aw, cfg.rw, c[1], c[2], c[3]) * cfg.den
          <= EffLen(a, c[1], c[1] + c[3], cfg.aw) * cfg.num

(*************************** occurrences with indels **********************)
(* For the adapter types that cannot skip the beginning of the adapter (as = 0) the tolerance
   depends on the end cell only, so a semi-global DP decides existence:
   D[i][j] = min over admitted read starts of ED(a[0..i), r[rs..j)). *)
StartFree(rule) == rule \in {"Back", "BackNI", "Suffix"}        \* read prefix may be skipped
EndCellOK(rule, m, n, i, j) ==
  CASE rule = "Back"   -> i = m \/ j = n
    [] rule = "BackNI" -> j = n
    [] rule = "Suffix" -> i = m /\ j = n
    [] rule = "Prefix" -> i = m

RowAdmits(cfg, a, r, row, i) ==
  /\ i >= EffOvl(cfg, Len(a))
  /\ \E j \in 0..Len(r) :
        /\ EndCellOK(cfg.rule, Len(a), Len(r), i, j)
        /\ row[j + 1] * cfg.den <= EffLen(a, 0, i, cfg.aw) * cfg.num

RECURSIVE SGExists(_, _, _, _, _)
SGExists(cfg, a, r, prev, i) ==
  IF i > Len(a) THEN FALSE
  ELSE LET cur == NextRow(prev, a[i], r, cfg.aw, cfg.rw, i)
       IN RowAdmits(cfg, a, r, cur, i) \/ SGExists(cfg, a, r, cur, i + 1)

IndelAdmissibleExists(cfg, a, r) ==
  LET row0 == [j \in 1..(Len(r) + 1) |-> IF StartFree(cfg.rule) THEN 0 ELSE j - 1]
  IN SGExists(cfg, a, r, row0, 1)

\* "rightmost 5'" is a regular 3' adapter on the reversed strings
AsBack(cfg) == [cfg EXCEPT !.rule = "Back"]

(*************************** C02: when a match must be reported ************)
MustFind(cfg, a, r) ==
  \/ ExactOccurrenceExists(cfg, a, r)
  \/ ~cfg.indels /\ GapFreeAdmissibleExists(cfg, a, r)
  \/ cfg.indels /\ cfg.rule \in {"Back", "BackNI", "Suffix", "Prefix"} /\ IndelAdmissibleExists(cfg, a, r)
  \/ cfg.indels /\ cfg.rule = "RightmostFront" /\ IndelAdmissibleExists(AsBack(cfg), Reverse(a), Reverse(r))

(*************************** C02: where the cut may lie ********************)
FullCopies(cfg, a, r) ==
  {p \in 0..(Len(r) - Len(a)) : ExactFrom(a, r, cfg.aw, cfg.rw, 0, p, Len(a))}
MinS(S) == CHOOSE x \in S : \A y \in S : x <= y
MaxS(S) == CHOOSE x \in S : \A y \in S : x >= y

\* found: BOOLEAN, res as in Sound.  Each is TRUE when it does not apply.
Cut3pAtOrBeforeLeftmostCopy(cfg, a, r, found, res) ==
  (cfg.rule = "Back" /\ FullCopies(cfg, a, r) # {}) => found /\ res[3] <= MinS(FullCopies(cfg, a, r))
Cut5pAtOrBeforeLeftmostCopyEnd(cfg, a, r, found, res) ==
  (cfg.rule = "Front" /\ FullCopies(cfg, a, r) # {}) => found /\ res[4] <= MinS(FullCopies(cfg, a, r)) + Len(a)
RightmostAtOrAfterRightmostCopyEnd(cfg, a, r, found, res) ==
  (cfg.rule = "RightmostFront" /\ FullCopies(cfg, a, r) # {}) => found /\ res[4] >= MaxS(FullCopies(cfg, a, r)) + Len(a)
AnchoredExactRemovedExactly(cfg, a, r, found, res) ==
  LET m == Len(a) n == Len(r) IN
  /\ (cfg.rule = "Prefix" /\ n >= m /\ ExactFrom(a, r, cfg.aw, cfg.rw, 0, 0, m))
        => found /\ res[1] = 0 /\ res[2] = m /\ res[3] = 0 /\ res[4] = m /\ res[6] = 0
  /\ (cfg.rule = "Suffix" /\ n >= m /\ ExactFrom(a, r, cfg.aw, cfg.rw, 0, n - m, m))
        => found /\ res[1] = 0 /\ res[2] = m /\ res[3] = n - m /\ res[4] = n /\ res[6] = 0
=============================================================================
