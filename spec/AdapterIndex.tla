---------------------------- MODULE AdapterIndex ----------------------------
(***************************************************************************)
(* The index over anchored adapters (C08).                                   *)
(*                                                                          *)
(*  - Entry(s, t): edit distance and number of matches of string s against   *)
(*    adapter t as the index construction computes them (transcription of    *)
(*    edit_environment's DP with its tie order: diagonal, then left, then    *)
(*    up); without indels: Hamming distance and length minus distance.       *)
(*  - The construction as a state machine: one step per adapter *in the      *)
(*    order given* (each string of the adapter's neighbourhood is updated    *)
(*    independently, so the per-adapter grain loses nothing).  Clear = TRUE  *)
(*    is the repaired rule (a strictly better adapter clears an earlier      *)
(*    tie), Clear = FALSE the original one.                                  *)
(*  - DeclIndex: what the index should be, independently of any order:       *)
(*    every string within tolerance of some adapter maps to the adapter with *)
(*    the most matches, unless two adapters attain that maximum.             *)
(*  - Lookup: the look-up machine over successively shorter affixes.         *)
(***************************************************************************)
EXTENDS Bases, TLC

\* ---- (cost, matches) of s against t with the code's tie order -----------------
\* rows over s (index i), columns over t (index j); row 0: cost j, matches 0; column 0: cost i
RECURSIVE EnvRow(_, _, _, _, _, _, _)
EnvRow(prevC, prevM, ch, t, j, accC, accM) ==
  IF j > Len(t) THEN <<accC, accM>>
  ELSE LET mm == IF t[j] = ch THEN 0 ELSE 1
           diag == prevC[j] + mm
           left == accC[j] + 1
           up == prevC[j + 1] + 1
           c == IF diag <= left /\ diag <= up THEN diag ELSE IF left <= up THEN left ELSE up
           m == IF diag <= left /\ diag <= up THEN prevM[j] + (1 - mm) ELSE IF left <= up THEN accM[j] ELSE prevM[j + 1]
       IN EnvRow(prevC, prevM, ch, t, j + 1, Append(accC, c), Append(accM, m))
RECURSIVE EnvRows(_, _, _, _, _)
EnvRows(s, t, i, rowC, rowM) ==
  IF i > Len(s) THEN <<rowC[Len(t) + 1], rowM[Len(t) + 1]>>
  ELSE LET nr == EnvRow(rowC, rowM, s[i], t, 1, <<i>>, <<0>>) IN EnvRows(s, t, i + 1, nr[1], nr[2])
EditEntry(s, t) == EnvRows(s, t, 1, [j \in 1..(Len(t) + 1) |-> j - 1], [j \in 1..(Len(t) + 1) |-> 0])

HamDist(s, t) == Cardinality({i \in 1..Len(s) : s[i] # t[i]})
\* <<errors, matches>> or <<-1, 0>> if s is not in the neighbourhood of adapter a = [seq, k, indels]
Entry(s, a) ==
  IF a.indels
  THEN (IF Len(s) > Len(a.seq) + a.k \/ Len(s) + a.k < Len(a.seq) THEN <<-1, 0>>
        ELSE LET e == EditEntry(s, a.seq) IN IF e[1] <= a.k THEN e ELSE <<-1, 0>>)
  ELSE (IF Len(s) # Len(a.seq) THEN <<-1, 0>>
        ELSE LET d == HamDist(s, a.seq) IN IF d <= a.k THEN <<d, Len(s) - d>> ELSE <<-1, 0>>)

\* ---- the construction ----------------------------------------------------------
\* index: function from strings to <<adapter number, errors, matches>>; amb: set of strings
StepAdapter(index, amb, strings, ads, n, clear) ==
  LET a == ads[n]
      hit == {s \in strings : Entry(s, a)[1] >= 0}
      upd(s) == LET en == Entry(s, a) IN
                IF s \in DOMAIN index /\ en[2] < index[s][3] THEN index[s] ELSE <<n, en[1], en[2]>>
      newAmb == (amb \cup {s \in hit : s \in DOMAIN index /\ Entry(s, a)[2] = index[s][3]})
                \ (IF clear THEN {s \in hit : s \in DOMAIN index /\ Entry(s, a)[2] > index[s][3]} ELSE {})
  IN <<[s \in (DOMAIN index \cup hit) |-> IF s \in hit THEN upd(s) ELSE index[s]], newAmb>>

RECURSIVE BuildFrom(_, _, _, _, _, _)
BuildFrom(index, amb, strings, ads, n, clear) ==
  IF n > Len(ads) THEN [s \in (DOMAIN index \ amb) |-> index[s]]
  ELSE LET st == StepAdapter(index, amb, strings, ads, n, clear) IN BuildFrom(st[1], st[2], strings, ads, n + 1, clear)
EmptyIndex == [s \in {} |-> <<0, 0, 0>>]
Build(strings, ads, clear) == BuildFrom(EmptyIndex, {}, strings, ads, 1, clear)

\* ---- what the index should be --------------------------------------------------
BestMatches(s, ads) == LET M == {Entry(s, ads[n])[2] : n \in {n \in 1..Len(ads) : Entry(s, ads[n])[1] >= 0}} IN
                       CHOOSE x \in M : \A y \in M : y <= x
Winners(s, ads) == {n \in 1..Len(ads) : Entry(s, ads[n])[1] >= 0 /\ Entry(s, ads[n])[2] = BestMatches(s, ads)}
Covered(strings, ads) == {s \in strings : \E n \in 1..Len(ads) : Entry(s, ads[n])[1] >= 0}
DeclIndexDomain(strings, ads) == {s \in Covered(strings, ads) : Cardinality(Winners(s, ads)) = 1}
DeclAdapter(s, ads) == CHOOSE n \in Winners(s, ads) : TRUE

\* ---- look-up: successively shorter affixes, best number of matches, then fewer errors ----
Affix(r, L, prefix) == IF prefix THEN SubSeq(r, 1, L) ELSE SubSeq(r, Len(r) - L + 1, Len(r))
RECURSIVE LookupFrom(_, _, _, _, _)
LookupFrom(index, r, lengths, prefix, best) ==       \* lengths: decreasing sequence; best = <<adapter, e, m, L>>
  IF lengths = <<>> \/ lengths[1] < best[3] THEN best
  ELSE LET L == lengths[1]
           rest == Tail(lengths)
       IN IF L > Len(r) THEN LookupFrom(index, r, rest, prefix, best)
          ELSE LET af == Affix(r, L, prefix) IN
               IF af \notin DOMAIN index THEN LookupFrom(index, r, rest, prefix, best)
               ELSE LET x == index[af] IN
                    IF x[3] > best[3] \/ (x[3] = best[3] /\ x[2] < best[2])
                    THEN LookupFrom(index, r, rest, prefix, <<x[1], x[2], x[3], L>>)
                    ELSE LookupFrom(index, r, rest, prefix, best)
Lookup(index, r, lengths, prefix) == LookupFrom(index, r, lengths, prefix, <<0, 1000, -1, 0>>)
=============================================================================
