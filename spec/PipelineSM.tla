----------------------------- MODULE PipelineSM -----------------------------
(***************************************************************************)
(* Design-level state machine of a whole run (C04, C10, C11, C15 and the     *)
(* ordering parts of C03/C05): reads are abstract (an interval [lo, hi) of   *)
(* an original of length len, an N flag, a CASAVA flag), every stage is one   *)
(* action in the documented order, enabled by its option; the adapter stage   *)
(* may choose ANY sub-interval and any matched/unmatched outcome (so the      *)
(* invariants hold for every behaviour of the oracle hole Locate); filters    *)
(* are evaluated in their documented order and the first that applies         *)
(* consumes the read.  TLC explores all option subsets and all outcomes.      *)
(***************************************************************************)
EXTENDS Integers, Sequences, FiniteSets, TLC
CONSTANTS NReads, MaxLen, MinLen, MaxLenOpt, OptUniverse

Stages == <<"cut", "nextseq", "qual", "adapter", "polya", "length", "trimn", "names", "info",
            "too_short", "too_long", "too_many_n", "max_ee", "max_aer", "casava", "trimmed_filter", "sink">>
Modifying == {"cut", "nextseq", "qual", "adapter", "polya", "length", "trimn"}
Filters == {"too_short", "too_long", "too_many_n", "max_ee", "max_aer", "casava", "trimmed_filter"}
TrimModes == {"none", "discard_trimmed", "discard_untrimmed", "untrimmed_output"}
Cats == {"too_short", "too_long", "too_many_n", "too_many_expected_errors", "too_high_average_error_rate",
         "casava_filtered", "discard_trimmed", "discard_untrimmed"}

VARIABLES
  opts,       \* set of enabled stages (chosen in Init)
  trimmode,   \* one of TrimModes
  redirect,   \* set of filters that write to a redirect file
  demux,      \* BOOLEAN: {name} demultiplexing
  k,          \* number of the read being processed (1..NReads), NReads+1 when finished
  pc,         \* index into Stages
  rd,         \* the read in flight: [len, lo, hi, n, casava, matched, ee]
  nIn, written, filtered, files, info
vars == <<opts, trimmode, redirect, demux, k, pc, rd, nIn, written, filtered, files, info>>

NewRead == [len : 0..MaxLen, n : BOOLEAN, casava : BOOLEAN, ee : BOOLEAN]
Fresh(r) == [len |-> r.len, lo |-> 0, hi |-> r.len, n |-> r.n, casava |-> r.casava, matched |-> FALSE, ee |-> r.ee]

Init ==
  /\ opts \in SUBSET OptUniverse
  /\ trimmode \in TrimModes /\ (trimmode # "none" => "adapter" \in opts)
  /\ redirect \in SUBSET {"too_short", "too_long"} /\ redirect \subseteq opts
  /\ demux \in BOOLEAN /\ (demux => "adapter" \in opts /\ trimmode \in {"none", "discard_untrimmed", "untrimmed_output"})
  /\ k = 1 /\ pc = 1 /\ rd \in {Fresh(r) : r \in NewRead}
  /\ nIn = 1 /\ written = 0 /\ filtered = [c \in Cats |-> 0]
  /\ files = [f \in {"out", "too_short", "too_long", "untrimmed", "demux", "demux_unknown"} |-> <<>>]
  /\ info = <<>>

Stage == Stages[pc]
Enabled(s) == s \in opts \/ s = "sink" \/ (s = "trimmed_filter" /\ trimmode # "none" /\ ~demux)
Length == rd.hi - rd.lo
Advance == pc' = pc + 1
Skip == /\ k <= NReads /\ ~Enabled(Stage) /\ pc' = pc + 1
        /\ UNCHANGED <<opts, trimmode, redirect, demux, k, rd, nIn, written, filtered, files, info>>

\* a modification may only shrink the interval; the adapter stage may also report a match without removing anything
Modify ==
  /\ k <= NReads /\ Enabled(Stage) /\ Stage \in Modifying
  /\ \E lo \in rd.lo..rd.hi : \E hi \in lo..rd.hi :
       rd' = [rd EXCEPT !.lo = lo, !.hi = hi,
                        !.matched = IF Stage = "adapter" THEN @ ELSE @]
  /\ Advance
  /\ UNCHANGED <<opts, trimmode, redirect, demux, k, nIn, written, filtered, files, info>>
Match ==   \* the adapter stage finds something (any remainder)
  /\ k <= NReads /\ Stage = "adapter" /\ Enabled(Stage)
  /\ \E lo \in rd.lo..rd.hi : \E hi \in lo..rd.hi : rd' = [rd EXCEPT !.lo = lo, !.hi = hi, !.matched = TRUE]
  /\ Advance
  /\ UNCHANGED <<opts, trimmode, redirect, demux, k, nIn, written, filtered, files, info>>

Info == /\ k <= NReads /\ Stage = "info" /\ Enabled(Stage)
        /\ info' = Append(info, k) /\ Advance
        /\ UNCHANGED <<opts, trimmode, redirect, demux, k, rd, nIn, written, filtered, files>>

\* does the filter at the current stage apply to the fully modified read?
Applies ==
  CASE Stage = "too_short" -> Length < MinLen
    [] Stage = "too_long" -> Length > MaxLenOpt
    [] Stage = "too_many_n" -> rd.n /\ Length > 0
    [] Stage = "max_ee" -> rd.ee /\ Length > 0
    [] Stage = "max_aer" -> FALSE
    [] Stage = "casava" -> rd.casava
    [] Stage = "trimmed_filter" -> (trimmode = "discard_trimmed" /\ rd.matched) \/ (trimmode # "discard_trimmed" /\ ~rd.matched)
    [] OTHER -> FALSE
Category ==
  CASE Stage = "too_short" -> "too_short" [] Stage = "too_long" -> "too_long" [] Stage = "too_many_n" -> "too_many_n"
    [] Stage = "max_ee" -> "too_many_expected_errors" [] Stage = "max_aer" -> "too_high_average_error_rate"
    [] Stage = "casava" -> "casava_filtered"
    [] Stage = "trimmed_filter" -> IF trimmode = "discard_trimmed" THEN "discard_trimmed" ELSE "discard_untrimmed"

NextRead ==
  IF k < NReads
  THEN /\ k' = k + 1 /\ pc' = 1 /\ rd' \in {Fresh(r) : r \in NewRead} /\ nIn' = nIn + 1
  ELSE /\ k' = NReads + 1 /\ pc' = 1 /\ rd' = rd /\ nIn' = nIn

FilterPass == /\ k <= NReads /\ Stage \in Filters /\ Enabled(Stage) /\ ~Applies /\ Advance
              /\ UNCHANGED <<opts, trimmode, redirect, demux, k, rd, nIn, written, filtered, files, info>>
FilterConsume ==
  /\ k <= NReads /\ Stage \in Filters /\ Enabled(Stage) /\ Applies
  /\ filtered' = [filtered EXCEPT ![Category] = @ + 1]
  /\ files' = IF Stage \in redirect THEN [files EXCEPT ![Stage] = Append(@, k)]
              ELSE IF Stage = "trimmed_filter" /\ trimmode = "untrimmed_output" THEN [files EXCEPT !["untrimmed"] = Append(@, k)]
              ELSE files
  /\ NextRead
  /\ UNCHANGED <<opts, trimmode, redirect, demux, written, info>>

Sink ==
  /\ k <= NReads /\ Stage = "sink"
  /\ IF ~demux THEN files' = [files EXCEPT !["out"] = Append(@, k)] /\ written' = written + 1 /\ UNCHANGED filtered
     ELSE IF rd.matched THEN files' = [files EXCEPT !["demux"] = Append(@, k)] /\ written' = written + 1 /\ UNCHANGED filtered
     ELSE IF trimmode = "discard_untrimmed"
          THEN filtered' = [filtered EXCEPT !["discard_untrimmed"] = @ + 1] /\ UNCHANGED <<files, written>>
     ELSE /\ files' = [files EXCEPT ![IF trimmode = "untrimmed_output" THEN "untrimmed" ELSE "demux_unknown"] = Append(@, k)]
          /\ written' = written + 1 /\ UNCHANGED filtered
  /\ NextRead
  /\ UNCHANGED <<opts, trimmode, redirect, demux, info>>

Done == k = NReads + 1 /\ UNCHANGED vars
Next == Skip \/ Modify \/ Match \/ Info \/ FilterPass \/ FilterConsume \/ Sink \/ Done
Spec == Init /\ [][Next]_vars

(******************************* invariants *******************************)
RECURSIVE SumCats(_)
SumCats(S) == IF S = {} THEN 0 ELSE LET c == CHOOSE x \in S : TRUE IN filtered[c] + SumCats(S \ {c})
Completed == IF k = NReads + 1 THEN NReads ELSE k - 1
\* input = written + sum of all filter categories, at every read boundary
Conservation == pc = 1 => Completed = written + SumCats(Cats)
AllFiles == {"out", "too_short", "too_long", "untrimmed", "demux", "demux_unknown"}
Occurrences(i) == Cardinality({<<f, j>> \in AllFiles \X (1..NReads) : j <= Len(files[f]) /\ files[f][j] = i})
\* a read is in at most one file, and exactly once there
OneDestination == \A i \in 1..NReads : Occurrences(i) <= 1
SliceInvariant == 0 <= rd.lo /\ rd.lo <= rd.hi /\ rd.hi <= rd.len
\* the stages of one read are visited in the documented order: pc only grows within a read
InOrder == [][(k' = k) => pc' >= pc]_vars
\* the info file has a row for every read that reached it, including reads filtered afterwards
InfoForEveryRead == ("info" \in opts /\ pc = 1) => info = [i \in 1..Completed |-> i]
\* no filter or output sees a read after the first filter that applied
WrittenMatchesFiles ==
  pc = 1 => written = Len(files["out"]) + Len(files["demux"]) + Len(files["demux_unknown"])
                      + (IF demux THEN Len(files["untrimmed"]) ELSE 0)
=============================================================================
