\* three distinct adapters of length 3 over {A,C,G}, one mismatch allowed, no indels; ORIGINAL rule: TLC is expected to find the order-dependent tie (candidate, rule R1)
CONSTANTS
  Sigma = {65, 67, 71}
  Lens = {3}
  NA = 3
  K = 1
  Indels = FALSE
  Clear = FALSE
  MaxR = 4
SPECIFICATION Spec
INVARIANT IndexIsDeclarative
INVARIANT UniqueOccurrenceFound
CHECK_DEADLOCK FALSE
