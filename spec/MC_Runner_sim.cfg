\* simulation config: behaviours of the fault-free protocol for replay into the real runner
CONSTANTS
  NW = 2
  NC = 3
  Kinds = {"none"}
SPECIFICATION SafetySpec
CHECK_DEADLOCK FALSE
