\* simulation config: behaviours of the fault-free protocol for replay into the real runner
CONSTANTS
  NW = 3
  NC = 4
  Kinds = {"none"}
SPECIFICATION SafetySpec
CHECK_DEADLOCK FALSE
