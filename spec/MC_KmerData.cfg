CONSTANTS
  MaxR = 5
SPECIFICATION Spec
INVARIANT ConformanceReport
CHECK_DEADLOCK FALSE
