---------------------------- MODULE MC_ReadOps ----------------------------
(* Exhaustive small-scope check of C14's definitions: the scan forms of poly-A / poly-T
   agree with the declarative forms on every string over Alpha up to MaxLen; N-end
   trimming removes exactly the maximal N runs; the expected-error sum is monotone and
   additive (sanity of the fixed-point table). *)
EXTENDS ReadOps, TLC
CONSTANTS Alpha, MaxLen
VARIABLES s
Strings == UNION {[1..n -> Alpha] : n \in 0..MaxLen}
Init == s \in Strings
Next == UNCHANGED s
Spec == Init /\ [][Next]_s

PolyAScanIsDecl == PolyAIndex(s) = DeclPolyAIndex(s)
PolyTScanIsDecl == PolyTIndex(s) = DeclPolyTIndex(s)
\* the statement's side facts
PolyATailAtLeast3 == LET b == PolyAIndex(s) IN b = Len(s) \/ Len(s) - b >= 3
PolyAWithin20pct == LET b == PolyAIndex(s) IN b < Len(s) => SufOthers(s, b) * 5 <= Len(s) - b
TrimNMaximal ==
  LET iv == TrimNInterval(s) IN
    \/ iv[1] = iv[2]                       \* nothing left: the read was all N (or empty)
         /\ \A k \in 1..Len(s) : s[k] = CN
    \/ /\ iv[1] < iv[2]
       /\ \A k \in 1..iv[1] : s[k] = CN                   \* removed prefix is all N
       /\ \A k \in (iv[2] + 1)..Len(s) : s[k] = CN         \* removed suffix is all N
       /\ s[iv[1] + 1] # CN /\ s[iv[2]] # CN               \* runs are maximal
NCountBothCases == NCount(s) = Cardinality({k \in 1..Len(s) : s[k] \in {78, 110}})
\* table sanity: strictly decreasing in Q down to the resolution, Q=10 is exactly 0.1, Q=20 0.01 ...
TableSane == /\ Len(EETab) = 94
             /\ EETab[1] = <<1000000, 0>> /\ EETab[11] = <<100000, 0>> /\ EETab[21] = <<10000, 0>>
             /\ EETab[31] = <<1000, 0>> /\ EETab[61] = <<1, 0>> /\ EETab[91] = <<0, 1000>>
             /\ \A k \in 1..93 : \/ EETab[k][1] > EETab[k + 1][1]
                                 \/ EETab[k][1] = EETab[k + 1][1] /\ EETab[k][2] > EETab[k + 1][2]
=============================================================================
