\* two distinct adapters of length 2..3 over {A,C}, one edit allowed, with indels; repaired rule
CONSTANTS
  Sigma = {65, 67}
  Lens = {2, 3}
  NA = 2
  K = 1
  Indels = TRUE
  Clear = TRUE
  MaxR = 4
SPECIFICATION Spec
INVARIANT IndexIsDeclarative
INVARIANT UniqueOccurrenceFound
CHECK_DEADLOCK FALSE
