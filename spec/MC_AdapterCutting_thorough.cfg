\* thorough: reads over {A,C,G} up to length 6
CONSTANTS
  Alphabet = {65, 67, 71}
  MaxLen = 6
  Pool = {1, 2, 3, 4, 5, 6, 7, 8, 9}
SPECIFICATION Spec
INVARIANT SliceInvariant
INVARIANT InPlaceInvariant
INVARIANT BestOfInvariant
INVARIANT RoundsInvariant
INVARIANT LinkedInvariant
INVARIANT RevCompInvariant
CHECK_DEADLOCK FALSE
