---------------------------- MODULE MC_QualTrim ----------------------------
(* Exhaustive small-scope check: scan form == declarative form of C13, and the
   derived facts, for every quality string over QV up to MaxLen and every cutoff pair.
   Also a step machine for the 3' scan whose actions are the branches of the
   implementation's loop (Break / NewMax / Keep / Exhausted) -- `-coverage 1`
   shows each branch is reached, and the terminal state must equal DeclStop3. *)
EXTENDS QualTrim, TLC
CONSTANTS QV, MaxLen, Cuts
VARIABLES q, c5, c3, pc, i, s, mx, best
vars == <<q, c5, c3, pc, i, s, mx, best>>

Strings == UNION {[1..n -> QV] : n \in 0..MaxLen}

Init == /\ q \in Strings /\ c5 \in Cuts /\ c3 \in Cuts
        /\ pc = "scan" /\ i = Len(q) /\ s = 0 /\ mx = 0 /\ best = Len(q)

Exhausted == pc = "scan" /\ i = 0 /\ pc' = "done" /\ UNCHANGED <<q, c5, c3, i, s, mx, best>>
Break  == /\ pc = "scan" /\ i > 0 /\ s + c3 - q[i] < 0
          /\ pc' = "done" /\ UNCHANGED <<q, c5, c3, i, s, mx, best>>
NewMax == /\ pc = "scan" /\ i > 0 /\ s + c3 - q[i] >= 0 /\ s + c3 - q[i] > mx
          /\ s' = s + c3 - q[i] /\ mx' = s' /\ best' = i - 1 /\ i' = i - 1
          /\ UNCHANGED <<q, c5, c3, pc>>
Keep   == /\ pc = "scan" /\ i > 0 /\ s + c3 - q[i] >= 0 /\ s + c3 - q[i] <= mx
          /\ s' = s + c3 - q[i] /\ i' = i - 1
          /\ UNCHANGED <<q, c5, c3, pc, mx, best>>
Next == Exhausted \/ Break \/ NewMax \/ Keep
Spec == Init /\ [][Next]_vars

ScanIsDecl3 == Stop3(q, c3) = DeclStop3(q, c3)
ScanIsDecl5 == Start5(q, c5) = DeclStart5(q, c5)
MachineIsDecl == pc = "done" => best = DeclStop3(q, c3)
Unchanged == UnchangedIfAllGood(q, c5, c3)
Empty == EmptyIfAllBad(q, c5, c3)
\* loop invariant of the scan: mx is the maximum of the partial sums seen, attained at best
LoopInv == pc = "scan" => /\ s = -SufSum(q, c3, i + 1)
                          /\ mx = -SufSum(q, c3, best + 1)
                          /\ \A k \in (i + 1)..(Len(q) + 1) : -SufSum(q, c3, k) <= mx
=============================================================================
