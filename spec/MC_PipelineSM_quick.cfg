\* quick: four optional stages; two reads of length 0..2, thresholds -m 1 / -M 1, all option subsets
CONSTANTS
  NReads = 2
  MaxLen = 2
  MinLen = 1
  MaxLenOpt = 1
  OptUniverse = {"adapter", "info", "too_short", "too_many_n"}
SPECIFICATION Spec
INVARIANT Conservation
INVARIANT OneDestination
INVARIANT SliceInvariant
INVARIANT InfoForEveryRead
INVARIANT WrittenMatchesFiles
PROPERTY InOrder
CHECK_DEADLOCK TRUE
