----------------------------- MODULE MC_KmerData -----------------------------
(* "The artefact the code actually built is model-checked": the search sets recorded from the
   real create_positions_and_kmers / KmerFinder objects of a sample of adapter configurations
   (file CONFIG_FILE, one JSON object per line) are checked against the declarative matcher
   for ALL reads up to MaxR over the adapter's letters plus one foreign letter.
   A read for which an admissible occurrence exists but no k-mer is present is printed as a
   candidate <<"CAND", config index, read>>; candidates are replayed into the real match_to
   (rule R1: only a real observation can become a verdict).
   Also: conformance of the transcribed construction with the recorded sets. *)
EXTENDS KmerFilter, TLC, Json, IOUtils
CONSTANTS MaxR
VARIABLES st, ci, r
vars == <<st, ci, r>>
Configs == ndJsonDeserialize(IOEnv.CONFIG_FILE)

SetsOf(c) == {<<c.sets[i].start, c.sets[i].stop, {c.sets[i].kmers[j] : j \in 1..Len(c.sets[i].kmers)}>> :
               i \in 1..Len(c.sets)}
CfgOf(c) == [rule |-> c.rule, num |-> c.num, den |-> c.den, ovl |-> c.ovl, aw |-> c.aw, rw |-> c.rw,
             indels |-> c.indels]
Letters(c) == {c.a[i] : i \in 1..Len(c.a)} \cup {c.foreign}
Reads(c) == UNION {[1..k -> Letters(c)] : k \in 0..MaxR}

RealPresent(c, rd) ==
  \/ Len(rd) < c.min_length                       \* ContainedReadKmerFinder
  \/ Present(SetsOf(c), IF c.typ = "RightmostFront" THEN Reverse(rd) ELSE rd, c.aw, c.rw)

Safe(c, rd) == DeclAdmissible(CfgOf(c), c.a, rd) => RealPresent(c, rd)

Init == st = "start" /\ ci \in 1..Len(Configs) /\ r = <<>>
Next == /\ st = "start" /\ st' = "chosen" /\ UNCHANGED ci
        /\ r' \in Reads(Configs[ci])
        /\ (Safe(Configs[ci], r') \/ PrintT(<<"CAND", ci, r'>>))
Spec == Init /\ [][Next]_vars

\* ---- conformance of the transcription with the recorded sets (reported, never an alarm) ----
Covers(S, T, m) ==      \* every k-mer window of S is contained in a window of the same k-mer in T
  \A ss \in S : \A k \in ss[3] : \A n \in 0..(2 * m + 3) :
     LET w == WindowOf(ss[1], ss[2], n) IN
     w[2] - w[1] >= Len(k) =>
       \E tt \in T : k \in tt[3] /\ LET v == WindowOf(tt[1], tt[2], n) IN v[1] <= w[1] /\ w[2] <= v[2]
Transcribed(c) ==
  LET aa == IF c.typ = "RightmostFront" THEN Reverse(c.a) ELSE c.a
  IN PositionsAndKmers(aa, EffOvl(CfgOf(c), Len(c.a)), c.num, c.den, c.wanted[1], c.wanted[2], c.wanted[3],
                       c.indels)
Conforms(c) == Covers(Transcribed(c), SetsOf(c), Len(c.a)) /\ Covers(SetsOf(c), Transcribed(c), Len(c.a))
ConformanceReport ==
  st = "start" => (Conforms(Configs[ci]) \/ PrintT(<<"NONCONF", ci>>))
=============================================================================
