------------------------------ MODULE CliRules ------------------------------
(***************************************************************************)
(* Which command lines the program accepts (beyond the listed properties:    *)
(* the documented rules about single-end / paired-end mode, output files,    *)
(* mutually exclusive options and demultiplexing).                           *)
(*                                                                          *)
(* A command line is abstracted to the options that take part in these       *)
(* rules; every one also carries `-a ADAPTER` and a JSON report.              *)
(*   nin   : 1 | 2        number of input files                               *)
(*   inter : --interleaved                                                   *)
(*   o, p  : -o FILE, -p FILE                                                 *)
(*   A, U  : -A ADAPTER, -U 1       (options that ask for paired-end mode)    *)
(*   pa    : --pair-adapters;  times : --times 2;  rc : --revcomp             *)
(*   m     : -m 5;  tso, tsp : --too-short-output / --too-short-paired-output *)
(*   uo, up: --untrimmed-output / --untrimmed-paired-output                   *)
(*   dt, du: --discard-trimmed / --discard-untrimmed                          *)
(*   demux : "none" | "name" ({name} in -o and -p) | "combi" ({name1},{name2}) *)
(*   rn, x : --rename TEMPLATE, -x PREFIX                                     *)
(* Outcome(c) \in {"ok", "usage"}: run to completion with status 0, or       *)
(* refused with an error message and status 2.                               *)
(***************************************************************************)
EXTENDS Integers, FiniteSets

\* paired-end mode is switched on by any option that only makes sense for pairs
Paired(c) == c.p \/ c.inter \/ c.A \/ c.U \/ c.up \/ c.tsp
\* --interleaved with one input file: that file holds both mates; with two input files only the output is interleaved
InterleavedInput(c) == c.inter /\ c.nin = 1
TwoOutputs(c) == Paired(c) /\ ~c.inter

B2N(b) == IF b THEN 1 ELSE 0

InputRule(c) ==           \* the number of input files fits the mode
  IF Paired(c) /\ ~InterleavedInput(c) THEN c.nin = 2 ELSE c.nin = 1
OutputRule(c) ==          \* two-file paired output needs -o and -p, and the redirect options in pairs
  /\ (c.p => c.o)                                              \* "when you use -p you must also use -o"
  /\ (TwoOutputs(c) => c.o /\ c.p)
  /\ (TwoOutputs(c) => (c.uo = c.up) /\ (c.tso = c.tsp))
  /\ ((c.up => c.uo) /\ (c.tsp => c.tso))                      \* a "paired output" is the second of two files
  /\ (~Paired(c) => ~c.up /\ ~c.pa)
LengthRule(c) == (c.tso \/ c.tsp) => c.m
ExclusiveRule(c) == B2N(c.dt) + B2N(c.du) + B2N(c.uo \/ c.up) <= 1
PairAdaptersRule(c) == c.pa => (~c.times /\ ~c.rc /\ c.A)          \* same number of R1 and R2 adapters; no rounds, no revcomp
DemuxRule(c) ==
  /\ (c.demux # "none" => ~c.dt)
  /\ (c.demux = "combi" => ~c.pa /\ ~c.uo /\ ~c.up)
NameRule(c) == ~(c.rn /\ c.x)

Accepted(c) == InputRule(c) /\ OutputRule(c) /\ LengthRule(c) /\ ExclusiveRule(c) /\ PairAdaptersRule(c)
               /\ DemuxRule(c) /\ NameRule(c)
Outcome(c) == IF Accepted(c) THEN "ok" ELSE "usage"

Base == [nin |-> 1, inter |-> FALSE, o |-> TRUE, p |-> FALSE, A |-> FALSE, U |-> FALSE, pa |-> FALSE, times |-> FALSE,
         rc |-> FALSE, m |-> FALSE, tso |-> FALSE, tsp |-> FALSE, uo |-> FALSE, up |-> FALSE, dt |-> FALSE, du |-> FALSE,
         demux |-> "none", rn |-> FALSE, x |-> FALSE]
PairedBase == [Base EXCEPT !.nin = 2, !.p = TRUE]

\* three families that together cover every rule and their pairwise interactions
ModeFamily ==
  {[Base EXCEPT !.nin = n, !.inter = i, !.o = o, !.p = p, !.A = a, !.U = u, !.uo = uo, !.up = up, !.tso = ts, !.tsp = tp, !.m = m] :
     n \in {1, 2}, i \in BOOLEAN, o \in BOOLEAN, p \in BOOLEAN, a \in BOOLEAN, u \in BOOLEAN, uo \in BOOLEAN, up \in BOOLEAN,
     ts \in BOOLEAN, tp \in BOOLEAN, m \in BOOLEAN}
TrimFamily ==
  {[b EXCEPT !.A = a, !.pa = pa, !.times = t, !.rc = rc, !.dt = dt, !.du = du, !.uo = uo, !.up = (uo /\ b.p), !.demux = d] :
     b \in {Base, PairedBase}, a \in BOOLEAN, pa \in BOOLEAN, t \in BOOLEAN, rc \in BOOLEAN, dt \in BOOLEAN, du \in BOOLEAN,
     uo \in BOOLEAN, d \in {"none", "name", "combi"}}
NameFamily == {[b EXCEPT !.rn = rn, !.x = x, !.demux = d] : b \in {Base, PairedBase}, rn \in BOOLEAN, x \in BOOLEAN, d \in {"none", "name"}}
\* {name1}/{name2} are only templates when -p is given; without -p they would be literal file names
Configs == {c \in ModeFamily \cup TrimFamily \cup NameFamily : c.demux = "combi" => (c.p /\ c.o)}
=============================================================================
