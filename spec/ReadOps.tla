------------------------------ MODULE ReadOps ------------------------------
(***************************************************************************)
(* C14: poly-A / poly-T trimming, N-end trimming, N counting, expected      *)
(* errors -- each in a scan form and, where the statement gives one, a      *)
(* declarative form; MC_ReadOps checks they agree on all small strings.     *)
(* Sequences are Seq(0..127) of ASCII codes; indices 0-based half-open.     *)
(***************************************************************************)
EXTENDS Bases, EETable

CA == 65  CT == 84  CN == 78  Cn == 110

MaxOf(S) == CHOOSE x \in S : \A y \in S : y <= x
MinOf(S) == CHOOSE x \in S : \A y \in S : x <= y

(**************************** poly-A (suffix) *****************************)
\* scan from the end: +1 per A, -2 per other base; a new best needs a strictly higher
\* score and at most 20% other bases in the suffix.
RECURSIVE PolyAScan(_, _, _, _, _, _)
PolyAScan(s, i, score, errs, bestScore, bestIdx) ==
  IF i = 0 THEN bestIdx
  ELSE LET isA == s[i] = CA
           sc == IF isA THEN score + 1 ELSE score - 2
           er == IF isA THEN errs ELSE errs + 1
           L  == Len(s) - i + 1
       IN IF sc > bestScore /\ er * 5 <= L
          THEN PolyAScan(s, i - 1, sc, er, sc, i - 1)
          ELSE PolyAScan(s, i - 1, sc, er, bestScore, bestIdx)

PolyAIndex(s) ==
  LET b == PolyAScan(s, Len(s), 0, 0, 0, Len(s))
  IN IF b > Len(s) - 3 THEN Len(s) ELSE b       \* tails shorter than three bases are ignored

\* declarative: among suffixes with <= 20% other bases and positive score, the one with
\* maximal score, the shorter one on ties.
SufOthers(s, i) == Cardinality({j \in (i + 1)..Len(s) : s[j] # CA})      \* suffix starting at 0-based i
SufScore(s, i) == (Len(s) - i) - 3 * SufOthers(s, i)
DeclPolyAIndex(s) ==
  LET n == Len(s)
      C == {i \in 0..(n - 1) : SufOthers(s, i) * 5 <= n - i /\ SufScore(s, i) > 0}
  IN IF C = {} THEN n
     ELSE LET b == CHOOSE i \in C : \A k \in C : SufScore(s, i) > SufScore(s, k)
                                        \/ (SufScore(s, i) = SufScore(s, k) /\ i >= k)
          IN IF n - b < 3 THEN n ELSE b

(**************************** poly-T (prefix, R2) *************************)
RECURSIVE PolyTScan(_, _, _, _, _, _)
PolyTScan(s, i, score, errs, bestScore, bestIdx) ==
  IF i > Len(s) THEN bestIdx
  ELSE LET isT == s[i] = CT
           sc == IF isT THEN score + 1 ELSE score - 2
           er == IF isT THEN errs ELSE errs + 1
       IN IF sc > bestScore /\ er * 5 <= i
          THEN PolyTScan(s, i + 1, sc, er, sc, i)
          ELSE PolyTScan(s, i + 1, sc, er, bestScore, bestIdx)

PolyTIndex(s) ==
  LET b == PolyTScan(s, 1, 0, 0, 0, 0) IN IF b < 3 THEN 0 ELSE b

PreOthers(s, i) == Cardinality({j \in 1..i : s[j] # CT})                 \* prefix of length i
PreScore(s, i) == i - 3 * PreOthers(s, i)
DeclPolyTIndex(s) ==
  LET C == {i \in 1..Len(s) : PreOthers(s, i) * 5 <= i /\ PreScore(s, i) > 0}
  IN IF C = {} THEN 0
     ELSE LET b == CHOOSE i \in C : \A k \in C : PreScore(s, i) > PreScore(s, k)
                                        \/ (PreScore(s, i) = PreScore(s, k) /\ i <= k)
          IN IF b < 3 THEN 0 ELSE b

(**************************** N ends, N count *****************************)
\* maximal runs of (upper-case) N at both ends
LeadN(s) == IF \A i \in 1..Len(s) : s[i] = CN THEN Len(s)
            ELSE MinOf({i \in 1..Len(s) : s[i] # CN}) - 1
TrailStart(s) == IF \A i \in 1..Len(s) : s[i] = CN THEN 0
                 ELSE MaxOf({i \in 1..Len(s) : s[i] # CN})
\* result as an interval <<lo, hi>> (0-based half-open); empty when the read is all N
TrimNInterval(s) == IF LeadN(s) >= TrailStart(s) THEN <<0, 0>> ELSE <<LeadN(s), TrailStart(s)>>

NCount(s) == Cardinality({i \in 1..Len(s) : s[i] = CN \/ s[i] = Cn})

(**************************** expected errors *****************************)
\* Sum over the qualities of 10^(-Q/10) in fixed point, scale 10^12 as <<hi, lo>> limbs
\* (base 10^6); the sums stay below 2^31 for reads up to 2000 bases.
RECURSIVE EESum(_, _, _, _)
EESum(q, i, hi, lo) ==
  IF i > Len(q) THEN <<hi, lo>>
  ELSE EESum(q, i + 1, hi + EETab[q[i] + 1][1], lo + EETab[q[i] + 1][2])

\* |observed - model| <= tol units of 10^-12, observed given as limbs too
EEClose(q, ohi, olo, tol) ==
  LET m == EESum(q, 1, 0, 0)
      dhi == ohi - m[1]
  IN /\ dhi \in -1000..1000
     /\ LET d == dhi * 1000000 + (olo - m[2]) IN d <= tol /\ -d <= tol
=============================================================================
