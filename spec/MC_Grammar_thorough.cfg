CONSTANTS
  Scale = 2
SPECIFICATION Spec
INVARIANT MeaningWellFormed
INVARIANT LinkedDefaults
INVARIANT BraceExpansion
CHECK_DEADLOCK FALSE
