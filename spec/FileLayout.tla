------------------------------ MODULE FileLayout ------------------------------
(***************************************************************************)
(* Results do not depend on compression, file layout or how a format is      *)
(* requested (C19).                                                          *)
(* cfg = [infmt, incont, inlayout, outname, outcont, outlayout, fastaflag,    *)
(*        cores]                                                             *)
(*   infmt    : "fastq" | "fasta"                                            *)
(*   incont   : "plain" | "gz" | "gzmulti" | "bz2" | "xz"                     *)
(*   inlayout : "single" | "two" | "interleaved"                             *)
(*   outname  : ".fastq" | ".fq" | ".fasta" | ".fa" | ".fastq.fasta" |        *)
(*              ".fa.fastq" | "stdout"                                        *)
(*   outcont  : "plain" | "gz" | "bz2" | "xz"   (plain for stdout)            *)
(*   outlayout: "single" | "two" | "interleaved"                             *)
(*   redirect : "none" | ".fastq" | ".fasta"  (name of a --too-short-output  *)
(*              file given in the same run, single-end only)                 *)
(*   untrim   : paired run with an adapter on R1 only and --untrimmed-output  *)
(***************************************************************************)
EXTENDS Integers, Sequences, FiniteSets

InFmts == {"fastq", "fasta"}
InConts == {"plain", "gz", "gzmulti", "bz2", "xz"}
Layouts == {"single", "two", "interleaved"}
\* (the last format suffix decides: "x.fastq.fasta" is a FASTA name, "x.fa.fastq" a FASTQ name)
OutNames == {".fastq", ".fq", ".fasta", ".fa", ".fastq.fasta", ".fa.fastq", "stdout"}
FastaNames == {".fasta", ".fa", ".fastq.fasta"}
FastqNames == {".fastq", ".fq", ".fa.fastq"}
OutConts == {"plain", "gz", "bz2", "xz"}

Paired(c) == c.inlayout # "single"
Valid(c) ==
  /\ (Paired(c) <=> c.outlayout # "single")                       \* paired input gives paired output
  /\ (c.outname = "stdout" => c.outcont = "plain" /\ c.outlayout # "two")
  \* --fasta is the way to ask for FASTA on standard output; given together with a named output file it must not
  \* change anything (the name decides), which is examined for plain inputs without the extra output files
  /\ (c.fastaflag => c.redirect = "none" /\ ~c.untrim /\ (c.outname # "stdout" => c.incont = "plain"))
  /\ (c.redirect # "none" => ~Paired(c) /\ c.outname # "stdout" /\ c.incont = "plain")
  \* untrim: paired run with an adapter for the first read only and --untrimmed-output (plus
  \* --untrimmed-paired-output when two files are written): which pairs count as untrimmed must not depend
  \* on whether the output is two files or one interleaved file
  /\ (c.untrim => Paired(c) /\ c.outname # "stdout" /\ c.redirect = "none" /\ c.incont = "plain" /\ c.outcont \in {"plain", "gz"})

\* FASTQ cannot be written without qualities: a name that asks for FASTQ while the input is FASTA cannot be
\* honoured.  The format is determined by the name "identically for every compression suffix and every number
\* of cores", so such a run must be refused identically (and never write FASTA into a file named .fastq).
MustRefuse(c) == c.infmt = "fasta" /\ (c.outname \in FastqNames \/ c.redirect = ".fastq")

\* The output format: the output file name decides (before any compression suffix); on standard output
\* --fasta decides; otherwise the input format is kept.
OutFormat(c) ==
  IF c.outname \in FastaNames THEN "fasta"
  ELSE IF c.outname \in FastqNames THEN "fastq"
  ELSE IF c.fastaflag THEN "fasta"
  ELSE c.infmt

\* every output file has the format of its own name
RedirectFormat(c) == IF c.redirect = ".fasta" THEN "fasta" ELSE "fastq"

Configs == {c \in [infmt : InFmts, incont : InConts, inlayout : Layouts, outname : OutNames, outcont : OutConts,
                   outlayout : Layouts, fastaflag : BOOLEAN, cores : {1, 2}, redirect : {"none", ".fastq", ".fasta"},
                   untrim : BOOLEAN] : Valid(c)}
=============================================================================
