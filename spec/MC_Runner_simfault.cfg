\* simulation config: behaviours of the protocol under every kind of fault, for replay into the real runner
CONSTANTS
  NW = 2
  NC = 3
  Kinds = {"badchunk", "readerfail", "startfail"}
SPECIFICATION SafetySpec
CHECK_DEADLOCK FALSE
