----------------------------- MODULE Trace_Fault -----------------------------
(* Trace specification for C12: one observation per execution of the real command line on a
   damaged input: the damaged file's line structure, whether its container (gzip stream) is
   complete, and what was observed: exit status, whether an error message was printed,
   whether the run terminated, which records the output holds (index of the input record each
   output record is the correctly processed form of; -1 if it is none). *)
EXTENDS TraceIO, FastqForm
VARIABLE l

WF(e) == e.container_ok /\ (IF e.interleaved THEN WellFormedInterleaved(e.lines1)
                          ELSE IF e.paired THEN WellFormedPair(e.lines1, e.lines2) ELSE WellFormed(e.lines1))
\* (an interleaved file holds both mates of every pair: out1 / out2 index the pairs)
AllRecords(e) == [k \in 1..(IF e.interleaved THEN NumRecords(e.lines1) \div 2 ELSE NumRecords(e.lines1)) |-> k - 1]

Check(e) ==
  /\ Rep(e.id, "Terminates", ~e.hung)
  /\ ~e.hung =>
     /\ Rep(e.id, "ExitZeroOnlyIfWellFormed", e.exit = 0 => WF(e))
     /\ Rep(e.id, "MalformedGivesNonZeroAndMessage", ~WF(e) => (e.exit # 0 /\ e.message))
     \* "It exits with status 0 only when the input was well-formed, and then the output contains every record":
     \* nothing is demanded of a run that refuses a well-formed input (that is not this property's business)
     /\ Rep(e.id, "ExitZeroMeansEveryRecordWritten",
            e.exit = 0 => (e.out1 = AllRecords(e) /\ (e.paired => e.out2 = AllRecords(e))))
     /\ Rep(e.id, "PartialOutputIsOrderedPrefix",
            /\ IsPrefixOf(e.out1, [k \in 1..Len(e.out1) |-> k - 1])
            /\ e.paired => e.out2 = e.out1)

Init == l = 1
\* (Check is compared with TRUE so that TLC evaluates it as one expression with short-circuit
\* semantics instead of splitting its disjunctions into separate successor computations)
Next == l <= Len(Trace) /\ (Check(Trace[l]) = TRUE) /\ l' = l + 1
Spec == Init /\ [][Next]_l
=============================================================================
