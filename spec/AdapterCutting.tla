--------------------------- MODULE AdapterCutting ---------------------------
(***************************************************************************)
(* The adapter-trimming stage (C09, C16, parts of C03 / C17 / C20),          *)
(* parameterised by the one oracle hole Locate (rule R2): the graph of the   *)
(* real match_to, sampled per read as a table of rows                        *)
(*   [ad, seq, found, as, ae, rs, re, score, errors]                         *)
(* Everything else -- best-of-adapters, linked adapters, rounds, actions,    *)
(* reverse complement -- is defined here exactly.                            *)
(*                                                                          *)
(* Adapter descriptor: [id, name, cls, f, b, freq, breq]                     *)
(*   cls \in {"front","back","anywhere","linked"}; for linked, f and b are    *)
(*   the descriptor ids of the 5' and 3' part and freq/breq say which part   *)
(*   is required.                                                            *)
(* A match is a record                                                       *)
(*   [ad, name, linked, hasF, f, hasB, b, score, errors, len]                 *)
(*   where f/b are part matches [rs, re, as, ae, errors, score, len] (len =   *)
(*   length of the sequence that part was searched in).                      *)
(***************************************************************************)
EXTENDS Bases

NoPart == [rs |-> 0, re |-> 0, as |-> 0, ae |-> 0, errors |-> 0, score |-> 0, len |-> 0]
NoMatch == [ad |-> -1, name |-> <<>>, linked |-> FALSE, hasF |-> FALSE, f |-> NoPart, hasB |-> FALSE,
            b |-> NoPart, score |-> 0, errors |-> 0, len |-> 0]
IsMatch(m) == m.ad >= 0

\* ---- the oracle ------------------------------------------------------------
RowsFor(table, id, s) == {k \in 1..Len(table) : table[k].ad = id /\ table[k].seq = s}
HasRow(table, id, s) == RowsFor(table, id, s) # {}
Locate(table, id, s) == table[CHOOSE k \in RowsFor(table, id, s) : TRUE]
PartOf(row, n) == [rs |-> row.rs, re |-> row.re, as |-> row.as, ae |-> row.ae, errors |-> row.errors,
                   score |-> row.score, len |-> n]

\* every (adapter part, sequence) the model needs must be in the table; otherwise the harness
\* extends the table and validates again (never a verdict)
Missing(table, id, s) == ~HasRow(table, id, s)

\* ---- one adapter against one sequence ------------------------------------------
SingleMatch(table, ad, s) ==
  LET row == Locate(table, ad.id, s) IN
  IF ~row.found THEN NoMatch
  ELSE LET isFront == ad.cls = "front" \/ (ad.cls = "anywhere" /\ row.rs = 0)
           p == PartOf(row, Len(s))
       IN [ad |-> ad.id, name |-> ad.name, linked |-> FALSE, hasF |-> isFront, f |-> IF isFront THEN p ELSE NoPart,
           hasB |-> ~isFront, b |-> IF isFront THEN NoPart ELSE p, score |-> row.score, errors |-> row.errors,
           len |-> Len(s)]

LinkedMatch(table, ad, s) ==
  LET frow == Locate(table, ad.f, s) IN
  IF ad.freq /\ ~frow.found THEN NoMatch
  ELSE LET s2 == IF frow.found THEN Slice(s, frow.re, Len(s)) ELSE s     \* the 3' part is searched in what remains
           brow == Locate(table, ad.b, s2)
       IN IF ~brow.found /\ (ad.breq \/ ~frow.found) THEN NoMatch
          ELSE [ad |-> ad.id, name |-> ad.name, linked |-> TRUE,
                hasF |-> frow.found, f |-> IF frow.found THEN PartOf(frow, Len(s)) ELSE NoPart,
                hasB |-> brow.found, b |-> IF brow.found THEN PartOf(brow, Len(s2)) ELSE NoPart,
                score |-> (IF frow.found THEN frow.score ELSE 0) + (IF brow.found THEN brow.score ELSE 0),
                errors |-> (IF frow.found THEN frow.errors ELSE 0) + (IF brow.found THEN brow.errors ELSE 0),
                len |-> Len(s)]

MatchOf(table, ad, s) == IF ad.cls = "linked" THEN LinkedMatch(table, ad, s) ELSE SingleMatch(table, ad, s)

\* table rows the evaluation of MatchOf needs (for the MISS report)
NeedsOf(table, ad, s) ==
  IF ad.cls # "linked" THEN (IF Missing(table, ad.id, s) THEN {<<ad.id, s>>} ELSE {})
  ELSE IF Missing(table, ad.f, s) THEN {<<ad.f, s>>}
  ELSE LET frow == Locate(table, ad.f, s)
           s2 == IF frow.found THEN Slice(s, frow.re, Len(s)) ELSE s
       IN IF (ad.freq /\ ~frow.found) \/ ~Missing(table, ad.b, s2) THEN {} ELSE {<<ad.b, s2>>}

\* ---- best of several adapters: higher score, then fewer errors, then the one given first ----
RECURSIVE BestFrom(_, _, _, _, _)
BestFrom(table, ads, s, k, best) ==
  IF k > Len(ads) THEN best
  ELSE LET m == MatchOf(table, ads[k], s)
           better == IsMatch(m) /\ (~IsMatch(best) \/ m.score > best.score
                                    \/ (m.score = best.score /\ m.errors < best.errors))
       IN BestFrom(table, ads, s, k + 1, IF better THEN m ELSE best)
BestOf(table, ads, s) == BestFrom(table, ads, s, 1, NoMatch)

\* ---- what remains of the searched sequence after trimming one match: <<lo, hi>> in that sequence ----
RemainderOf(m) ==
  LET lo == IF m.hasF THEN m.f.re ELSE 0
      hi == IF m.hasB THEN lo + m.b.rs ELSE m.len
  IN <<lo, hi>>

\* ---- rounds: one adapter per round on the already trimmed read, stop at first miss or limit ----
\* state: <<lo, hi, matches>> with [lo, hi) the kept interval of the sequence the stage received
RECURSIVE RoundsFrom(_, _, _, _, _, _, _)
RoundsFrom(table, ads, s, times, lo, hi, ms) ==
  IF times = 0 THEN <<lo, hi, ms>>
  ELSE LET m == BestOf(table, ads, Slice(s, lo, hi)) IN
       IF ~IsMatch(m) THEN <<lo, hi, ms>>
       ELSE LET r == RemainderOf(m) IN
            RoundsFrom(table, ads, s, times - 1, lo + r[1], lo + r[2], Append(ms, m))
Rounds(table, ads, s, times) == RoundsFrom(table, ads, s, times, 0, Len(s), <<>>)

RECURSIVE NeedsRounds(_, _, _, _, _, _)
NeedsRounds(table, ads, s, times, lo, hi) ==
  IF times = 0 THEN {}
  ELSE LET cur == Slice(s, lo, hi)
           needs == UNION {NeedsOf(table, ads[k], cur) : k \in 1..Len(ads)}
       IN IF needs # {} THEN needs
          ELSE LET m == BestOf(table, ads, cur) IN
               IF ~IsMatch(m) THEN {}
               ELSE LET r == RemainderOf(m) IN NeedsRounds(table, ads, s, times - 1, lo + r[1], lo + r[2])

\* ---- actions: result as <<lo, hi, kind>> over the sequence the stage received ----
\* retain / crop use the last (only) match, whose coordinates refer to that sequence
RetainInterval(m) ==
  LET start == IF m.hasF THEN m.f.rs ELSE 0
      off == IF m.hasF THEN m.f.re ELSE 0
      end == IF m.hasB THEN m.b.re + off ELSE m.len
  IN <<start, end>>
CropInterval(m) == IF m.hasF THEN <<m.f.rs, m.f.re>> ELSE <<m.b.rs, m.b.re>>       \* (single adapters only)

\* apply the action to a read [name, seq, qual]; qual = <<>> for FASTA
SliceRead(r, lo, hi) ==
  [name |-> r.name, seq |-> Slice(r.seq, lo, hi), qual |-> IF r.qual = <<>> THEN <<>> ELSE Slice(r.qual, lo, hi)]
MaskSeq(s, lo, hi) == [i \in 1..Len(s) |-> IF i > lo /\ i <= hi THEN s[i] ELSE 78]
LowerSeq2(s, lo, hi) == [i \in 1..Len(s) |-> IF i > lo /\ i <= hi THEN Upper(s[i]) ELSE LowerC(s[i])]

\* the sequence the matching sees: with action lowercase the read is upper-cased first
Searched(action, s) == IF action = "lowercase" THEN UpperSeq(s) ELSE s

ApplyAction(action, r, res) ==
  LET lo == res[1] hi == res[2] ms == res[3] IN
  IF ms = <<>> THEN (IF action = "lowercase" THEN [r EXCEPT !.seq = UpperSeq(r.seq)] ELSE r)
  ELSE CASE action = "trim"      -> SliceRead([r EXCEPT !.seq = Searched(action, r.seq)], lo, hi)
         [] action = "retain"    -> LET iv == RetainInterval(ms[Len(ms)]) IN SliceRead(r, iv[1], iv[2])
         [] action = "crop"      -> LET iv == CropInterval(ms[Len(ms)]) IN SliceRead(r, iv[1], iv[2])
         [] action = "mask"      -> [r EXCEPT !.seq = MaskSeq(r.seq, lo, hi)]
         [] action = "lowercase" -> [r EXCEPT !.seq = LowerSeq2(r.seq, lo, hi)]
         [] action = "none"      -> r

\* one cutter on one read: <<resulting read, matches>>
Cut1(table, ads, action, times, r) ==
  LET res == Rounds(table, ads, Searched(action, r.seq), times) IN <<ApplyAction(action, r, res), res[3]>>

RECURSIVE SumScores(_, _)
SumScores(ms, k) == IF k > Len(ms) THEN 0 ELSE ms[k].score + SumScores(ms, k + 1)

\* ---- reverse complement (single-end): keep the orientation that matches strictly better ----
RevCompRead(r) == [name |-> r.name, seq |-> RevComp(r.seq), qual |-> Reverse(r.qual)]
\* result: <<read, matches, is_rc>>
CutRevComp(table, ads, action, times, r) ==
  LET fw == Cut1(table, ads, action, times, r)
      rv == Cut1(table, ads, action, times, RevCompRead(r))
      useRc == rv[2] # <<>> /\ SumScores(rv[2], 1) > SumScores(fw[2], 1)
  IN IF useRc THEN <<rv[1], rv[2], TRUE>> ELSE <<fw[1], fw[2], FALSE>>

NeedsCut1(table, ads, action, times, r) ==
  NeedsRounds(table, ads, Searched(action, r.seq), times, 0, Len(r.seq))
NeedsRevComp(table, ads, action, times, r) ==
  NeedsCut1(table, ads, action, times, r) \cup NeedsCut1(table, ads, action, times, RevCompRead(r))

\* ---- --pair-adapters: best pair of same-rank adapters or nothing ----
RECURSIVE BestPairFrom(_, _, _, _, _, _, _)
BestPairFrom(table, ads1, ads2, s1, s2, k, best) ==       \* best = <<m1, m2>> or <<NoMatch, NoMatch>>
  IF k > Len(ads1) THEN best
  ELSE LET m1 == MatchOf(table, ads1[k], s1) IN
       IF ~IsMatch(m1) THEN BestPairFrom(table, ads1, ads2, s1, s2, k + 1, best)
       ELSE LET m2 == MatchOf(table, ads2[k], s2) IN
            IF ~IsMatch(m2) THEN BestPairFrom(table, ads1, ads2, s1, s2, k + 1, best)
            ELSE LET sc == m1.score + m2.score
                     er == m1.errors + m2.errors
                     bsc == best[1].score + best[2].score
                     ber == best[1].errors + best[2].errors
                     better == ~IsMatch(best[1]) \/ sc > bsc \/ (sc = bsc /\ er < ber)
                 IN BestPairFrom(table, ads1, ads2, s1, s2, k + 1, IF better THEN <<m1, m2>> ELSE best)
BestPair(table, ads1, ads2, s1, s2) == BestPairFrom(table, ads1, ads2, s1, s2, 1, <<NoMatch, NoMatch>>)

NeedsPair(table, ads1, ads2, s1, s2) ==
  UNION {NeedsOf(table, ads1[k], s1) : k \in 1..Len(ads1)}
  \cup UNION {IF NeedsOf(table, ads1[k], s1) = {} /\ IsMatch(MatchOf(table, ads1[k], s1))
              THEN NeedsOf(table, ads2[k], s2) ELSE {} : k \in 1..Len(ads1)}

ApplyOne(action, r, m) ==       \* one match, one round
  LET rem == RemainderOf(m) IN ApplyAction(action, r, <<rem[1], rem[2], <<m>>>>)
=============================================================================
