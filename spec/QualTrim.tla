------------------------------ MODULE QualTrim ------------------------------
(***************************************************************************)
(* Quality trimming (C13): the BWA-style running-sum scan in two forms.     *)
(*                                                                          *)
(*  - Scan form: what the statement of C13 describes operationally          *)
(*    ("scanning from the end and stopping once the running sum becomes     *)
(*    positive"); one recursive operator step per scanned base.             *)
(*  - Declarative form: "the position that minimises the sum of             *)
(*    (quality - cutoff) over the suffix, the shortest such suffix on       *)
(*    ties", restricted to the scanned range.                               *)
(*                                                                          *)
(* MC_QualTrim checks that both agree on every quality string up to a small *)
(* length; Trace_Fn uses the scan form (fast) as the oracle for recorded     *)
(* calls of the real functions.                                             *)
(*                                                                          *)
(* Qualities here are phred values (character code minus quality base);     *)
(* indices returned are 0-based half-open like the implementation's.        *)
(***************************************************************************)
EXTENDS Integers, Sequences, FiniteSets

Max(S) == CHOOSE x \in S : \A y \in S : y <= x

(*************************** scan form ************************************)
RECURSIVE Scan3(_, _, _, _, _, _)
Scan3(q, c, i, s, mx, best) ==
  IF i = 0 THEN best
  ELSE LET s2 == s + c - q[i] IN
       IF s2 < 0 THEN best                                   \* running sum of (q-c) became positive
       ELSE IF s2 > mx THEN Scan3(q, c, i - 1, s2, s2, i - 1) \* strict maximum: shortest suffix on ties
       ELSE Scan3(q, c, i - 1, s2, mx, best)

Stop3(q, c) == Scan3(q, c, Len(q), 0, 0, Len(q))

RECURSIVE Scan5(_, _, _, _, _, _)
Scan5(q, c, i, s, mx, best) ==
  IF i > Len(q) THEN best
  ELSE LET s2 == s + c - q[i] IN
       IF s2 < 0 THEN best
       ELSE IF s2 > mx THEN Scan5(q, c, i + 1, s2, s2, i)
       ELSE Scan5(q, c, i + 1, s2, mx, best)

Start5(q, c) == Scan5(q, c, 1, 0, 0, 0)

\* The two ends are combined into one interval, empty if they cross.
Combine(start, stop) == IF start >= stop THEN <<0, 0>> ELSE <<start, stop>>
TrimInterval(q, c5, c3) == Combine(Start5(q, c5), Stop3(q, c3))

\* NextSeq: 3' procedure where every (upper-case) G counts as quality cutoff-1.
GCode == 71
NextSeqQual(q, seq, c) == [i \in 1..Len(q) |-> IF seq[i] = GCode THEN c - 1 ELSE q[i]]
NextSeqStop(q, seq, c) == Stop3(NextSeqQual(q, seq, c), c)

(*************************** declarative form *****************************)
RECURSIVE SufSum(_, _, _)
SufSum(q, c, i) == IF i > Len(q) THEN 0 ELSE (q[i] - c) + SufSum(q, c, i + 1)
RECURSIVE PreSum(_, _, _)
PreSum(q, c, i) == IF i < 1 THEN 0 ELSE (q[i] - c) + PreSum(q, c, i - 1)

\* 3' end.  The scan stops at the last position whose suffix sum is positive.
Halt3(q, c) == LET P == {i \in 1..Len(q) : SufSum(q, c, i) > 0} IN IF P = {} THEN 0 ELSE Max(P)
DeclStop3(q, c) ==
  LET C == (Halt3(q, c) + 1)..(Len(q) + 1)       \* suffix start positions the scan considers (n+1: empty suffix)
      best == CHOOSE i \in C : \A k \in C :
                 \/ SufSum(q, c, i) < SufSum(q, c, k)
                 \/ SufSum(q, c, i) = SufSum(q, c, k) /\ i >= k
  IN best - 1

Min(S) == CHOOSE x \in S : \A y \in S : x <= y
Halt5(q, c) == LET P == {i \in 1..Len(q) : PreSum(q, c, i) > 0} IN IF P = {} THEN Len(q) + 1 ELSE Min(P)
DeclStart5(q, c) ==
  LET C == 0..(Halt5(q, c) - 1)                   \* prefix end positions (0: empty prefix)
      best == CHOOSE i \in C : \A k \in C :
                 \/ PreSum(q, c, i) < PreSum(q, c, k)
                 \/ PreSum(q, c, i) = PreSum(q, c, k) /\ i <= k
  IN best

(*************************** derived facts stated in C13 ******************)
AllGood(q, c) == \A i \in 1..Len(q) : q[i] >= c
AllBad(q, c)  == Len(q) > 0 /\ \A i \in 1..Len(q) : q[i] < c
UnchangedIfAllGood(q, c5, c3) ==
  (AllGood(q, c5) /\ AllGood(q, c3) /\ Len(q) > 0) => TrimInterval(q, c5, c3) = <<0, Len(q)>>
EmptyIfAllBad(q, c5, c3) ==
  (AllBad(q, c3) \/ AllBad(q, c5)) => LET iv == TrimInterval(q, c5, c3) IN iv[1] = iv[2]
=============================================================================
