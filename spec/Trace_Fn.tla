------------------------------ MODULE Trace_Fn ------------------------------
(* Trace specification for C13 / C14: call/return observations of the real
   quality_trim_index, nextseq_trim_index, poly_a_trim_index, expected_errors, NEndTrimmer,
   TooManyN and of command-line runs with -q / --nextseq-trim / --poly-a / --trim-n are
   validated against QualTrim and ReadOps. *)
EXTENDS TraceIO, QualTrim, ReadOps
VARIABLE l

Ph(q, base) == [i \in 1..Len(q) |-> q[i] - base]

RECURSIVE SumSeq(_, _)
SumSeq(s, i) == IF i > Len(s) THEN 0 ELSE s[i] + SumSeq(s, i + 1)

\* model of one read through [nextseq] -> [quality trim]; returns <<lo, hi>> of the input
QRunInterval(e, r) ==
  LET ph == Ph(r.q, e.base)
      hi1 == IF e.ns >= 0 THEN NextSeqStop(ph, r.seq, e.ns) ELSE Len(ph)
      ph2 == SubSeq(ph, 1, hi1)
      iv == IF e.qt THEN TrimInterval(ph2, e.a, e.b) ELSE <<0, hi1>>
  IN iv

\* model of one read through [poly-A] -> [trim-n]
CRunInterval(e, r) ==
  LET hi1 == IF e.polya THEN PolyAIndex(r.seq) ELSE Len(r.seq)
      s2 == SubSeq(r.seq, 1, hi1)
      iv == IF e.trimn THEN TrimNInterval(s2) ELSE <<0, hi1>>
  IN <<iv, Len(r.seq) - hi1>>

Check(e) ==
  CASE e.f = "qtrim" ->
         LET ph == Ph(e.q, e.base) IN
         /\ Rep(e.id, "CombinedInterval", e.out = TrimInterval(ph, e.a, e.b))
         /\ Rep(e.id, "UnchangedIfAllGood",
                (AllGood(ph, e.a) /\ AllGood(ph, e.b) /\ Len(ph) > 0) => e.out = <<0, Len(ph)>>)
         /\ Rep(e.id, "EmptyIfAllBad", (AllBad(ph, e.b) \/ AllBad(ph, e.a)) => e.out[1] = e.out[2])
    [] e.f = "qtrim3" ->
         Rep(e.id, "Index3p", e.out[1] = 0 /\ e.out[2] = Stop3(Ph(e.q, e.base), e.b))
    [] e.f = "qtrim5" ->
         LET st == Start5(Ph(e.q, e.base), e.a) IN
         Rep(e.id, "Index5p", e.out = Combine(st, Len(e.q)))
    [] e.f = "nextseq" ->
         Rep(e.id, "NextSeqIndex", e.out[1] = NextSeqStop(Ph(e.q, e.base), e.seq, e.b))
    [] e.f = "qrun" ->
         /\ Rep(e.id, "SameNumberOfReads", Len(e.reads) = Len(e.outs))
         /\ Len(e.reads) = Len(e.outs) =>
            /\ \A k \in 1..Len(e.reads) :
                 LET iv == QRunInterval(e, e.reads[k]) IN
                 /\ Rep(e.id, "ReadAfterQualityTrimming",
                        /\ e.outs[k].seq = SubSeq(e.reads[k].seq, iv[1] + 1, iv[2])
                        /\ e.outs[k].q = SubSeq(e.reads[k].q, iv[1] + 1, iv[2]))
            /\ Rep(e.id, "ReportedEqualsRemoved",
                   e.reported = SumSeq([k \in 1..Len(e.reads) |->
                                          Len(e.reads[k].seq) - Len(e.outs[k].seq)], 1))
    [] e.f = "qsum" ->
         Rep(e.id, "ReportedTotalIsSumOfMates", e.total = SumSeq(e.parts, 1))
    [] e.f = "polya" -> Rep(e.id, "PolyAIndex", e.out[1] = PolyAIndex(e.seq))
    [] e.f = "polyt" -> Rep(e.id, "PolyTIndex", e.out[1] = PolyTIndex(e.seq))
    [] e.f = "trimn" ->
         LET iv == TrimNInterval(e.seq) IN
         Rep(e.id, "TrimNMaximalRuns", e.out = Slice(e.seq, iv[1], iv[2]))
    [] e.f = "toomanyn" ->
         \* a/b: the --max-n value; below 1 it is a fraction of the read length
         LET n == NCount(e.seq)
             expect == IF e.a < e.b
                       THEN (Len(e.seq) > 0 /\ n * e.b > e.a * Len(e.seq))
                       ELSE n * e.b > e.a
         IN Rep(e.id, "NCountBothCases", (e.out[1] = 1) = expect)
    [] e.f = "ee" ->
         Rep(e.id, "ExpectedErrorsSum", EEClose(Ph(e.q, e.base), e.out[1], e.out[2], Len(e.q) + 20))
    [] e.f = "crun" ->
         /\ Rep(e.id, "SameNumberOfReads", Len(e.reads) = Len(e.outs))
         /\ Len(e.reads) = Len(e.outs) =>
            /\ \A k \in 1..Len(e.reads) :
                 LET m == CRunInterval(e, e.reads[k])
                     iv == m[1]
                 IN Rep(e.id, "ReadAfterPolyAAndTrimN",
                        /\ e.outs[k].seq = SubSeq(e.reads[k].seq, iv[1] + 1, iv[2])
                        /\ e.outs[k].q = SubSeq(e.reads[k].q, iv[1] + 1, iv[2]))
            /\ Rep(e.id, "PolyAReportedEqualsRemoved",
                   e.reported = SumSeq([k \in 1..Len(e.reads) |-> CRunInterval(e, e.reads[k])[2]], 1))
    [] OTHER -> Rep(e.id, "UnknownEventKind", FALSE)

Init == l = 1
\* (Check is compared with TRUE so that TLC evaluates it as one expression with short-circuit
\* semantics instead of splitting its disjunctions into separate successor computations)
Next == l <= Len(Trace) /\ (Check(Trace[l]) = TRUE) /\ l' = l + 1
Spec == Init /\ [][Next]_l
=============================================================================
