----------------------------- MODULE Trace_Layout -----------------------------
(* Trace specification for C19: one observation per executed FileLayout configuration: the format
   of every main output (decompressed by the harness) and the records it holds, against the records
   of the reference run (plain FASTQ, one core, plain output) of the same reads and options. *)
EXTENDS TraceIO, FileLayout
VARIABLE l
NoQual(recs) == [i \in 1..Len(recs) |-> [name |-> recs[i].name, seq |-> recs[i].seq, qual |-> <<>>]]
Check(e) ==
  LET c == e.cfg
      fmt == OutFormat(c)
      exp1 == IF fmt = "fasta" THEN NoQual(e.ref1) ELSE e.ref1
      exp2 == IF fmt = "fasta" THEN NoQual(e.ref2) ELSE e.ref2
  IN /\ IF MustRefuse(c) THEN Rep(e.id, "FastqNameWithoutQualitiesRefusedIdentically", e.exit # 0)
                         ELSE Rep(e.id, "RunSucceeds", e.exit = 0)
     /\ (e.exit = 0 /\ ~MustRefuse(c)) =>
        /\ Rep(e.id, "OutFormatByNameThenFlagThenInput", \A i \in 1..Len(e.formats) : e.formats[i] \in {fmt, "empty"})
        /\ c.redirect # "none" => Rep(e.id, "EveryOutputFileHasTheFormatOfItsOwnName", e.redirect_format \in {RedirectFormat(c), "empty"})
        /\ Rep(e.id, IF c.infmt = "fasta" THEN "FastaEqualsFastqNamesAndSeqs" ELSE "RecordsIndependentOfContainerAndLayout",
               e.out1 = exp1 /\ (Paired(c) => e.out2 = exp2))
Init == l = 1
Next == l <= Len(Trace) /\ (Check(Trace[l]) = TRUE) /\ l' = l + 1
Spec == Init /\ [][Next]_l
=============================================================================
