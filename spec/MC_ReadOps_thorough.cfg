\* thorough: alphabet {A, C, N, T, n}, length <= 8 (the 20% boundary needs >= 5: 1 other in 5; 2 in 10 is covered by the 3-letter config)
CONSTANTS
  Alpha = {65, 67, 78, 84, 110}
  MaxLen = 8
SPECIFICATION Spec
INVARIANT PolyAScanIsDecl
INVARIANT PolyTScanIsDecl
INVARIANT PolyATailAtLeast3
INVARIANT PolyAWithin20pct
INVARIANT TrimNMaximal
INVARIANT NCountBothCases
INVARIANT TableSane
CHECK_DEADLOCK FALSE
