----------------------------- MODULE MC_CliRules -----------------------------
(* TLC enumerates the configurations of CliRules, writes them to OUT_FILE for the harness to run, and checks
   side facts of the rule set. *)
EXTENDS CliRules, TLC, Json, IOUtils, SequencesExt
VARIABLE c
ASSUME ndJsonSerialize(IOEnv.OUT_FILE, SetToSeq(Configs))
Init == c \in Configs
Next == UNCHANGED c
Spec == Init /\ [][Next]_c
\* an accepted single-end command line uses no option that belongs to pairs
SingleEndIsClean == (Accepted(c) /\ ~Paired(c)) => (c.nin = 1 /\ ~c.p /\ ~c.A /\ ~c.U /\ ~c.up /\ ~c.tsp /\ ~c.pa)
\* an accepted paired command line reads two files or one interleaved file
PairedHasBothMates == (Accepted(c) /\ Paired(c)) => (c.nin = 2 \/ InterleavedInput(c))
\* both outcomes occur in every family (the rule set is not vacuous)
BothOutcomesOccur == /\ \E x \in Configs : Outcome(x) = "ok"
                     /\ \E x \in Configs : Outcome(x) = "usage"
=============================================================================
