----------------------------- MODULE Trace_Match -----------------------------
(* Trace specification for C01 / C02 / C07: every recorded call of the real
   <AdapterClass>.match_to(read) -- result with the adapter's own k-mer prefilter (found, res)
   and with the always-true finder (found_nf, res_nf) -- is validated against AdapterMatch.
   e.want selects the clause groups to evaluate ("C01", "C02", "C07"). *)
EXTENDS TraceIO, AlignerAlg
VARIABLE l

CfgOf(e) == [rule |-> e.rule, num |-> e.num, den |-> e.den, ovl |-> e.ovl,
             aw |-> e.aw, rw |-> e.rw, indels |-> e.indels]

CheckC01(e, cfg, found, res, tag) ==
  found =>
    LET as == res[1] ae == res[2] rs == res[3] re == res[4] errors == res[6] IN
    /\ Rep(e.id, "C01.InBounds" \o tag, InBounds(e.a, e.r, as, ae, rs, re))
    /\ InBounds(e.a, e.r, as, ae, rs, re) =>
       /\ Rep(e.id, "C01.Placement" \o tag, PlacementOK(cfg, e.a, e.r, as, ae, rs, re))
       /\ Rep(e.id, "C01.MinOverlap" \o tag, MinOverlapOK(cfg, e.a, as, ae))
       /\ Rep(e.id, "C01.NoIndelShape" \o tag, NoIndelShape(cfg, as, ae, rs, re))
       /\ Rep(e.id, "C01.ErrorsAreDistance" \o tag, ErrorsAreDistance(cfg, e.a, e.r, as, ae, rs, re, errors))
       /\ Rep(e.id, "C01.WithinRate" \o tag, errors >= 0 /\ WithinRate(cfg, e.a, as, ae, errors))

CheckC02(e, cfg, found, res, tag) ==
  /\ ~found =>
       /\ Rep(e.id, "C02.FoundIfExact" \o tag, ~ExactOccurrenceExists(cfg, e.a, e.r))
       /\ ~ExactOccurrenceExists(cfg, e.a, e.r) =>
            Rep(e.id, IF cfg.indels THEN "C02.FoundIfAdmissibleIndels" \o tag
                                    ELSE "C02.FoundIfAdmissibleNoIndels" \o tag,
                ~MustFind(cfg, e.a, e.r))
  /\ Rep(e.id, "C02.Cut3pAtOrBeforeLeftmostCopy" \o tag, Cut3pAtOrBeforeLeftmostCopy(cfg, e.a, e.r, found, res))
  /\ Rep(e.id, "C02.Cut5pAtOrBeforeLeftmostCopyEnd" \o tag, Cut5pAtOrBeforeLeftmostCopyEnd(cfg, e.a, e.r, found, res))
  /\ Rep(e.id, "C02.RightmostAtOrAfterRightmostCopyEnd" \o tag, RightmostAtOrAfterRightmostCopyEnd(cfg, e.a, e.r, found, res))
  /\ Rep(e.id, "C02.AnchoredExactRemovedExactly" \o tag, AnchoredExactRemovedExactly(cfg, e.a, e.r, found, res))

\* the transcription for the adapter variant of the event ("rightmost" with ;anywhere runs on the reversed strings)
AlgFor(e, cfg) ==
  IF e.typ = "RightmostFront;anywhere"
  THEN LET c2 == [rule |-> cfg.rule, num |-> cfg.num, den |-> cfg.den, aw |-> cfg.aw, rw |-> cfg.rw, indels |-> cfg.indels,
                  ovl |-> cfg.ovl, minov |-> EffOvl(cfg, Len(e.a))]
           x == LocateWithFlags(c2, Flags("Anywhere"), Reverse(e.a), Reverse(e.r))
       IN IF ~x[1] THEN NoneRes
          ELSE <<TRUE, <<Len(e.a) - x[2][2], Len(e.a) - x[2][1], Len(e.r) - x[2][4], Len(e.r) - x[2][3], x[2][5], x[2][6]>>>>
  ELSE AlgLocate(cfg, e.a, e.r)

Has(e, g) == \E i \in 1..Len(e.want) : e.want[i] = g

Check(e) ==
  LET cfg == CfgOf(e) IN
  /\ Has(e, "C01") => CheckC01(e, cfg, e.found, e.res, "")
  /\ Has(e, "C02") => CheckC02(e, cfg, e.found, e.res, "")
  \* the same clauses on the result obtained with the prefilter bypassed: attributes a miss to its cause
  /\ Has(e, "C01nf") => CheckC01(e, cfg, e.found_nf, e.res_nf, "@nofilter")
  /\ Has(e, "C02nf") => CheckC02(e, cfg, e.found_nf, e.res_nf, "@nofilter")
  \* conformance of the transcribed algorithm with the real aligner (reported, never an alarm: rule R1)
  /\ Has(e, "ALG") => Rep(e.id, "ALG.TranscriptionAgreesWithAligner", AlgFor(e, cfg) = <<e.found_nf, e.res_nf>>)
  /\ Has(e, "C07") =>
       Rep(e.id, "C07.SameResultWithAndWithoutPrefilter",
           e.found = e.found_nf /\ (e.found => e.res = e.res_nf))

Init == l = 1
\* (Check is compared with TRUE so that TLC evaluates it as one expression with short-circuit
\* semantics instead of splitting its disjunctions into separate successor computations)
Next == l <= Len(Trace) /\ (Check(Trace[l]) = TRUE) /\ l' = l + 1
Spec == Init /\ [][Next]_l
=============================================================================
